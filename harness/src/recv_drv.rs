//! sessions / replay-receiver: builds real packet sessions with the real Sender, then feeds them
//! - under a fault schedule, a scripted object writer and controlled clocks - into a real
//! MultiReceiver and records what really happened.
use crate::catalog::*;
use crate::sender_drv::{run_behaviour_sink, PacketSink};
use crate::util::*;
use flute::core::UDPEndpoint;
use flute::receiver::writer::{
    ObjectCacheControl, ObjectMetadata, ObjectWriter, ObjectWriterBuilder, ObjectWriterBuilderResult,
};
use flute::receiver::{Config, MultiReceiver, MultiReceiverListener, ReceiverEndpoint};
use serde_json::{json, Value};
use std::cell::{Cell, RefCell};
use std::collections::HashMap;
use std::io::Read;
use std::rc::Rc;
use std::sync::atomic::{AtomicI64, AtomicU64, Ordering};
use std::sync::Arc;
use std::time::{Duration, SystemTime};

// --------------------------------------------------------------------------------------------
// sessions

pub struct Session {
    pub sid: usize,
    pub spec: Value,
    pub pkts: Vec<(i64, Vec<u8>, Value)>,
    pub events: Vec<Value>,
    pub contents: Vec<Vec<u8>>, // by o-1
    pub toi2o: HashMap<u128, usize>,
    pub tick_us: u64,
    pub tsi: u64,
}

pub fn build_session(sid: usize, spec: &Value) -> Session {
    let mut out = Out::memory();
    let mut sink: PacketSink = Some(Vec::new());
    let mut spec = spec.clone();
    if spec.get("beh").is_none() {
        spec["beh"] = json!(sid);
    }
    let spec = &spec;
    let _ = catch(|| run_behaviour_sink(spec, &mut out, &mut sink));
    let events = out.mem.take().unwrap_or_default();
    let mut toi2o = HashMap::new();
    for e in &events {
        if e["ev"] == "add" && e["res"] == "ok" {
            if let Some(h) = e["toix"].as_str() {
                toi2o.insert(u128::from_str_radix(h, 16).unwrap_or(0), e["o"].as_u64().unwrap() as usize);
            }
        }
    }
    let objs = spec.get("objs").and_then(|o| o.as_array()).cloned().unwrap_or_default();
    let contents = objs.iter().enumerate().map(|(i, o)| object_content(i + 1, o)).collect();
    let cfg = jget(spec, "cfg");
    Session {
        sid,
        spec: spec.clone(),
        pkts: sink.unwrap_or_default(),
        events,
        contents,
        toi2o,
        tick_us: jopt_i(cfg, "tick_us", 1000) as u64,
        tsi: jopt_i(cfg, "tsi", 1) as u64,
    }
}

fn session_event(s: &Session) -> Value {
    let reset = s.events.iter().find(|e| e["ev"] == "reset").cloned().unwrap_or(json!({}));
    let pk: Vec<Value> = s
        .pkts
        .iter()
        .enumerate()
        .map(|(i, (t, bytes, p))| {
            json!({"i": i + 1, "t": t, "k": p["k"], "o": p["o"], "id": p.get("id").cloned().unwrap_or(json!(-1)),
                   "sbn": p["sbn"], "esi": p["esi"], "B": p["B"], "A": p["A"], "len": p["len"], "size": bytes.len(),
                   "fti": p["fti"].get("L").is_some(), "fl": p["fti"].get("L").cloned().unwrap_or(json!(-1)),
                   "sct": p["sct"].get("ms").is_some(),
                   // for the mechanism specification: in-band CENC, source block length of the payload id, SCT in seconds
                   "cencx": p.get("cenc").cloned().unwrap_or(json!(-1)), "sbl": p.get("sbl").cloned().unwrap_or(json!(-1)),
                   "scts": p["sct"].get("ms").and_then(|m| m.as_i64()).map(|m| m.div_euclid(1000)).unwrap_or(0)})
        })
        .collect();
    let xml: Vec<Value> = s.events.iter().filter(|e| e["ev"] == "fdtxml").cloned().collect();
    let adds: Vec<Value> = s.events.iter().filter(|e| e["ev"] == "add").map(|e| json!({"o": e["o"], "res": e["res"], "toix": e.get("toix").cloned().unwrap_or(json!(""))})).collect();
    let dead = s.events.iter().any(|e| e["ev"] == "dead" || e["ev"] == "harness_panic");
    json!({"ev":"session","sid":s.sid,"cfg":reset.get("cfg").cloned().unwrap_or(json!({})),
           "objs":reset.get("objs").cloned().unwrap_or(json!([])),"skip":reset.get("skip").cloned().unwrap_or(json!("")),
           "pkts":pk,"fdtxml":xml,"adds":adds,"sender_dead":dead})
}

fn read_lines(path: &str) -> Vec<Value> {
    let mut text = String::new();
    if path == "-" {
        std::io::stdin().read_to_string(&mut text).unwrap();
    } else {
        std::fs::File::open(path).expect("open input").read_to_string(&mut text).unwrap();
    }
    text.lines().filter(|l| !l.trim().is_empty()).map(|l| serde_json::from_str(l).expect("json line")).collect()
}

pub fn sessions(args: &Args) {
    let specs = read_lines(&args.str("in", "-"));
    let mut out = Out::new(args.get("out"));
    for (i, spec) in specs.iter().enumerate() {
        let s = build_session(i, spec);
        out.emit(&session_event(&s));
    }
    out.flush();
}

// --------------------------------------------------------------------------------------------
// scripted writer

struct WState {
    log: RefCell<Vec<Value>>,
    next_w: Cell<usize>,
    answers: Vec<String>,
    open_fail: Vec<usize>,
    write_fail: Vec<(usize, usize)>,
    md5: bool,
    base_s: i64,
    /// (endpoint id, tsi) -> session index, contents and toi map of each session
    sess: RefCell<Vec<(u64, u64, Rc<SessData>)>>,
}

pub struct SessData {
    pub contents: Vec<Vec<u8>>,
    pub toi2o: HashMap<u128, usize>,
    /// added to the object index reported for this stream (distinguishes the objects of a second
    /// session that shares endpoint and TSI with the judged one)
    pub o_offset: usize,
}

fn lookup(st: &WState, ep: u64, tsi: u64, toi: &u128) -> (usize, Option<Vec<u8>>) {
    for (e, t, sd) in st.sess.borrow().iter() {
        if *e == ep && *t == tsi {
            if let Some(o) = sd.toi2o.get(toi) {
                return (*o + sd.o_offset, Some(sd.contents[*o - 1].clone()));
            }
        }
    }
    (0, None)
}

fn ep_id(ep: &UDPEndpoint) -> u64 {
    // endpoints used by the harness: 224.0.0.<id>:3400 with optional source 10.0.0.<s>
    let g = ep.destination_group_address.rsplit('.').next().and_then(|x| x.parse::<u64>().ok()).unwrap_or(0);
    let s = ep.source_address.as_ref().and_then(|a| a.rsplit('.').next().and_then(|x| x.parse::<u64>().ok())).unwrap_or(0);
    g * 10 + s
}

pub fn make_ep(id: u64) -> UDPEndpoint {
    let g = id / 10;
    let s = id % 10;
    UDPEndpoint::new(if s == 0 { None } else { Some(format!("10.0.0.{}", s)) }, format!("224.0.0.{}", g), 3400)
}

fn rel_s(t: SystemTime, base_s: i64) -> i64 {
    match t.duration_since(SystemTime::UNIX_EPOCH) {
        Ok(d) => d.as_secs() as i64 - base_s,
        Err(e) => -(e.duration().as_secs() as i64) - base_s,
    }
}

fn meta_json(meta: &ObjectMetadata, base_s: i64) -> Value {
    let cache = match meta.cache_control {
        ObjectCacheControl::NoCache => json!(["nocache", 0]),
        ObjectCacheControl::MaxStale => json!(["maxstale", 0]),
        ObjectCacheControl::ExpiresAt(t) => json!(["expires", rel_s(t, base_s)]),
        ObjectCacheControl::ExpiresAtHint(t) => json!(["hint", rel_s(t, base_s)]),
    };
    let (e, b, par, scheme, fti) = match &meta.oti {
        Some(o) => (o.encoding_symbol_length as i64, o.maximum_source_block_length as i64,
                    o.max_number_of_parity_symbols as i64, o.fec_encoding_id as u8 as i64, o.inband_fti),
        None => (-1, -1, -1, -1, false),
    };
    json!({"loc": meta.content_location, "clen": meta.content_length.map(|x| x as i64).unwrap_or(-1),
           "tlen": meta.transfer_length.map(|x| x as i64).unwrap_or(-1),
           "type": meta.content_type.clone().unwrap_or_default(), "md5": meta.md5.clone().unwrap_or_default(),
           "groups": meta.groups.clone().unwrap_or_default(), "etag": meta.e_tag.clone().unwrap_or_default(),
           "cache": cache, "cenc": meta.cenc.map(|c| c as u8 as i64).unwrap_or(-1),
           "E": e, "B": b, "par": par, "scheme": scheme, "fti": fti})
}

struct SBuilder {
    st: Rc<WState>,
}

struct SWriter {
    st: Rc<WState>,
    w: usize,
    content: Option<Vec<u8>>,
    written: RefCell<Vec<u8>>,
    nwrite: Cell<usize>,
}

impl std::fmt::Debug for SWriter {
    fn fmt(&self, f: &mut std::fmt::Formatter<'_>) -> std::fmt::Result {
        write!(f, "SWriter{}", self.w)
    }
}

impl ObjectWriterBuilder for SBuilder {
    fn new_object_writer(&self, endpoint: &UDPEndpoint, tsi: &u64, toi: &u128, meta: &ObjectMetadata, now: SystemTime) -> ObjectWriterBuilderResult {
        let w = self.st.next_w.get();
        self.st.next_w.set(w + 1);
        let ep = ep_id(endpoint);
        let (o, content) = lookup(&self.st, ep, *tsi, toi);
        let ans = self.st.answers.get(w - 1).cloned().unwrap_or("store".to_string());
        self.st.log.borrow_mut().push(json!({"k":"new","w":w,"o":o,"ans":ans,"ep":ep,"tsi":*tsi as i64,
            "toix":format!("{:x}", toi),"meta":meta_json(meta, self.st.base_s),"ts":rel_s(now, self.st.base_s)}));
        match ans.as_str() {
            "already" => ObjectWriterBuilderResult::ObjectAlreadyReceived,
            "abort" => ObjectWriterBuilderResult::Abort,
            _ => ObjectWriterBuilderResult::StoreObject(Box::new(SWriter {
                st: self.st.clone(),
                w,
                content,
                written: RefCell::new(Vec::new()),
                nwrite: Cell::new(0),
            })),
        }
    }

    fn update_cache_control(&self, endpoint: &UDPEndpoint, tsi: &u64, toi: &u128, meta: &ObjectMetadata, _now: SystemTime) {
        let ep = ep_id(endpoint);
        let (o, _) = lookup(&self.st, ep, *tsi, toi);
        self.st.log.borrow_mut().push(json!({"k":"cc","o":o,"ep":ep,"tsi":*tsi as i64,"meta":meta_json(meta, self.st.base_s)}));
    }

    fn fdt_received(&self, endpoint: &UDPEndpoint, tsi: &u64, fdt_xml: &str, expires: SystemTime, _meta: &ObjectMetadata,
                    _transfer_duration: Duration, now: SystemTime, ext_time: Option<SystemTime>) {
        self.st.log.borrow_mut().push(json!({"k":"fdtrx","ep":ep_id(endpoint),"tsi":*tsi as i64,"exp":rel_s(expires, self.st.base_s),
            "ts":rel_s(now, self.st.base_s),"sct":ext_time.map(|t| rel_s(t, self.st.base_s)).unwrap_or(-999999),"xd":dg(fdt_xml.as_bytes())}));
    }
}

impl ObjectWriter for SWriter {
    fn open(&self, now: SystemTime) -> flute::error::Result<()> {
        let fail = self.st.open_fail.contains(&self.w);
        self.st.log.borrow_mut().push(json!({"k":"open","w":self.w,"res":if fail {"err"} else {"ok"},"ts":rel_s(now, self.st.base_s)}));
        if fail {
            Err(flute::error::FluteError::new("scripted open failure"))
        } else {
            Ok(())
        }
    }

    fn write(&self, _sbn: u32, data: &[u8], _now: SystemTime) -> flute::error::Result<()> {
        let n = self.nwrite.get() + 1;
        self.nwrite.set(n);
        let fail = self.st.write_fail.iter().any(|(w, c)| *w == self.w && *c == n);
        let mut wr = self.written.borrow_mut();
        if !fail {
            wr.extend_from_slice(data);
        }
        let exp = match &self.content {
            Some(c) if wr.len() <= c.len() => dg(&c[..wr.len()]),
            _ => "-".to_string(),
        };
        self.st.log.borrow_mut().push(json!({"k":"write","w":self.w,"len":data.len(),"tot":wr.len(),"got":dg(&wr),"exp":exp,
            "res":if fail {"err"} else {"ok"}}));
        if fail {
            Err(flute::error::FluteError::new("scripted write failure"))
        } else {
            Ok(())
        }
    }

    fn complete(&self, _now: SystemTime) {
        let wr = self.written.borrow();
        self.st.log.borrow_mut().push(json!({"k":"complete","w":self.w,"tot":wr.len(),"dg":dg_full(&wr)}));
    }

    fn error(&self, _now: SystemTime) {
        self.st.log.borrow_mut().push(json!({"k":"error","w":self.w}));
    }

    fn interrupted(&self, _now: SystemTime) {
        self.st.log.borrow_mut().push(json!({"k":"interrupted","w":self.w}));
    }

    fn enable_md5_check(&self) -> bool {
        self.st.md5
    }
}

struct Listener {
    st: Rc<WState>,
}
impl MultiReceiverListener for Listener {
    fn on_session_open(&self, e: &ReceiverEndpoint) {
        self.st.log.borrow_mut().push(json!({"k":"sopen","ep":ep_id(&e.endpoint),"tsi":e.tsi as i64}));
    }
    fn on_session_closed(&self, e: &ReceiverEndpoint) {
        self.st.log.borrow_mut().push(json!({"k":"sclosed","ep":ep_id(&e.endpoint),"tsi":e.tsi as i64}));
    }
}

// --------------------------------------------------------------------------------------------
// watchdog

pub(crate) static DEADLINE_MS: AtomicU64 = AtomicU64::new(0);
pub(crate) static CUR_BEH: AtomicI64 = AtomicI64::new(-1);
pub(crate) static CUR_LINE: AtomicI64 = AtomicI64::new(-1);

fn now_ms() -> u64 {
    SystemTime::now().duration_since(SystemTime::UNIX_EPOCH).unwrap().as_millis() as u64
}

pub(crate) fn start_watchdog(side: String, limit_ms: u64) {
    std::thread::spawn(move || loop {
        std::thread::sleep(Duration::from_millis(50));
        let d = DEADLINE_MS.load(Ordering::Relaxed);
        if d != 0 && now_ms() > d {
            let _ = std::fs::write(&side, format!("{{\"beh\":{},\"op\":{},\"limit_ms\":{}}}\n", CUR_BEH.load(Ordering::Relaxed), CUR_LINE.load(Ordering::Relaxed), limit_ms));
            std::process::exit(3);
        }
    });
}

pub(crate) fn guarded<T>(limit_ms: u64, f: impl FnOnce() -> T) -> T {
    DEADLINE_MS.store(now_ms() + limit_ms, Ordering::Relaxed);
    let r = f();
    DEADLINE_MS.store(0, Ordering::Relaxed);
    r
}

// --------------------------------------------------------------------------------------------
// replay

fn snapshot(rx: &MultiReceiver, st: &WState) -> Value {
    let snaps = rx.verif_snapshot();
    let mut sess = Vec::new();
    for (key, s) in &snaps {
        let ep = ep_id(&key.endpoint);
        let map = |t: &u128| lookup(st, ep, key.tsi, t).0;
        sess.push(json!({"ep": ep, "tsi": key.tsi as i64,
            "objs": s.objects.iter().map(|o| json!({"o": map(&o.toi), "toix": format!("{:x}", o.toi), "st": o.state, "cp": o.cache_pkts, "cb": o.cache_bytes,
                "cc": o.cache_counter, "nb": o.nb_blocks, "bo": o.blocks_offset, "nab": o.nb_allocated_blocks, "ab": o.allocated_bytes,
                "w": o.writer, "fdt": o.fdt_instance_id.map(|x| x as i64).unwrap_or(-1), "oti": o.has_oti})).collect::<Vec<_>>(),
            "done": s.completed.iter().map(map).collect::<Vec<_>>(), "ndone": s.completed.len(),
            "err": s.errors.iter().map(map).collect::<Vec<_>>(), "nerr": s.errors.len(),
            "fr": s.fdt_receivers.iter().map(|(id, stt)| json!([id, stt])).collect::<Vec<_>>(),
            "fc": s.fdt_current.iter().map(|(id, stt)| json!([id, stt])).collect::<Vec<_>>(),
            "closing": s.closing}));
    }
    json!({"n": rx.nb_objects(), "ne": rx.nb_objects_error(), "sess": sess, "heap": crate::alloc::live()})
}

fn mutate(bytes: &[u8], m: &Value, payload_off: usize) -> Vec<u8> {
    let a = m.as_array().unwrap();
    let mut v = bytes.to_vec();
    match a[0].as_str().unwrap_or("") {
        "flip" => {
            let off = a[1].as_u64().unwrap() as usize;
            let mask = a[2].as_u64().unwrap() as u8;
            if off < v.len() {
                v[off] ^= mask;
            }
        }
        "set" => {
            let off = a[1].as_u64().unwrap() as usize;
            if off < v.len() {
                v[off] = a[2].as_u64().unwrap() as u8;
            }
        }
        "trunc" => {
            let n = a[1].as_u64().unwrap() as usize;
            let l = v.len().saturating_sub(n);
            v.truncate(l);
        }
        "ext" => {
            let n = a[1].as_u64().unwrap() as usize;
            v.extend(std::iter::repeat(0xA5u8).take(n));
        }
        "pidff" => {
            // first byte of the FEC payload id (most significant byte of the SBN) set to 0xFF: a source block far
            // beyond the partition of the object
            let pidlen = if v.len() > 3 && v[3] == 129 { 8 } else { 4 };
            if payload_off >= pidlen && payload_off <= v.len() {
                v[payload_off - pidlen] = 0xFF;
            }
        }
        "payflip" => {
            // flip a payload byte: 0 first, 1 middle, 2 last
            if v.len() > payload_off {
                let plen = v.len() - payload_off;
                let k = a[1].as_u64().unwrap();
                let off = payload_off + match k { 0 => 0, 1 => plen / 2, _ => plen - 1 };
                v[off] ^= 0x5A;
            }
        }
        _ => {}
    }
    v
}

pub struct RxRun<'a> {
    pub sessions: &'a Vec<Session>,
}

pub fn run_rx_behaviour(beh: &Value, sessions: &Vec<Session>, out: &mut Out, limit_ms: u64) {
    let bid = jget(beh, "beh").as_i64().unwrap_or(-1);
    CUR_BEH.store(bid, Ordering::Relaxed);
    let rcfg = beh.get("rcfg").cloned().unwrap_or(json!({}));
    let wv = beh.get("w").cloned().unwrap_or(json!({}));
    // streams: list of [sid, endpoint id]; default one stream: the behaviour's sid on endpoint 10
    let streams: Vec<(usize, u64)> = match beh.get("streams").and_then(|s| s.as_array()) {
        Some(a) => a.iter().map(|x| (x[0].as_u64().unwrap() as usize, x[1].as_u64().unwrap())).collect(),
        None => vec![(jopt_i(beh, "sid", 0) as usize, 10)],
    };
    for (sid, _) in &streams {
        if *sid >= sessions.len() {
            out.emit(&json!({"ev":"reset","beh":bid,"skip":"unknown session"}));
            return;
        }
    }
    let base_s = BASE_UNIX as i64;
    let st = Rc::new(WState {
        log: RefCell::new(Vec::new()),
        next_w: Cell::new(1),
        answers: wv.get("ans").and_then(|a| a.as_array()).map(|a| a.iter().map(|x| x.as_str().unwrap_or("store").to_string()).collect()).unwrap_or_default(),
        open_fail: wv.get("open_fail").and_then(|a| a.as_array()).map(|a| a.iter().map(|x| x.as_u64().unwrap() as usize).collect()).unwrap_or_default(),
        write_fail: wv.get("write_fail").and_then(|a| a.as_array()).map(|a| a.iter().map(|x| (x[0].as_u64().unwrap() as usize, x[1].as_u64().unwrap() as usize)).collect()).unwrap_or_default(),
        md5: jopt_b(&wv, "md5", true),
        base_s,
        sess: RefCell::new(Vec::new()),
    });
    for (n, (sid, ep)) in streams.iter().enumerate() {
        let s = &sessions[*sid];
        let shares = streams[..n].iter().any(|(s2, e2)| *e2 == *ep && sessions[*s2].tsi == s.tsi);
        st.sess.borrow_mut().push((*ep, s.tsi, Rc::new(SessData { contents: s.contents.clone(), toi2o: s.toi2o.clone(), o_offset: if shares { 100 * n } else { 0 } })));
    }
    let max_cache = jopt_i(&rcfg, "max_cache", -1);
    let obj_to = jopt_i(&rcfg, "obj_to", -1);
    let sess_to = jopt_i(&rcfg, "sess_to", -1);
    let config = Config {
        max_objects_error: jopt_i(&rcfg, "max_err", 0) as usize,
        session_timeout: if sess_to < 0 { None } else { Some(Duration::from_millis(sess_to as u64)) },
        object_timeout: if obj_to < 0 { None } else { Some(Duration::from_millis(obj_to as u64)) },
        object_max_cache_size: if max_cache < 0 { None } else { Some(max_cache as usize) },
        object_receive_once: jopt_b(&rcfg, "once", true),
        enable_fdt_expiration_check: jopt_b(&rcfg, "expiry", true),
    };
    let heap0 = crate::alloc::live();
    let builder = Rc::new(SBuilder { st: st.clone() });
    let mut rx: Option<MultiReceiver> = Some(MultiReceiver::new(builder, Some(config), jopt_b(&rcfg, "filtering", false)));
    rx.as_mut().unwrap().add_listener(Listener { st: st.clone() });
    out.emit(&json!({"ev":"reset","beh":bid,"sid":streams[0].0,"streams":streams.iter().map(|(s, e)| json!([s, e])).collect::<Vec<_>>(),
                     "rcfg":{"once":config.object_receive_once,"expiry":config.enable_fdt_expiration_check,"max_cache":max_cache,
                             "max_err":config.max_objects_error,"obj_to":obj_to,"sess_to":sess_to,"filtering":jopt_b(&rcfg, "filtering", false)},
                     "w":{"md5":st.md5,"ans":wv.get("ans").cloned().unwrap_or(json!([])),"open_fail":wv.get("open_fail").cloned().unwrap_or(json!([])),
                          "write_fail":wv.get("write_fail").cloned().unwrap_or(json!([]))},
                     "heap0":heap0}));

    let beh_start = std::time::Instant::now();
    let mut delay_us: i64 = 0;
    let mut skew_us: i64 = 0;
    let mut fixed_now: Option<i64> = None; // absolute ticks
    let mut last_now = base_time();
    let mut cur_stream = 0usize;
    let sched = jget(beh, "sched").as_array().unwrap().clone();
    let mut opn = 0i64;
    let mut dead = false;

    let time_of = |t_ticks: i64, tick_us: u64, delay_us: i64, skew_us: i64| -> SystemTime {
        let us = t_ticks as i128 * tick_us as i128 + delay_us as i128 + skew_us as i128;
        if us >= 0 {
            base_time() + Duration::from_micros(us as u64)
        } else {
            base_time() - Duration::from_micros((-us) as u64)
        }
    };

    let push_bytes = |rx: &mut Option<MultiReceiver>, st: &Rc<WState>, ep: u64, bytes: &[u8], now: SystemTime, tag: Value, out: &mut Out| -> bool {
        let r = match rx.as_mut() {
            None => return true,
            Some(r) => r,
        };
        let endpoint = make_ep(ep);
        crate::alloc::reset_peak();
        let live0 = crate::alloc::live();
        let t0 = std::time::Instant::now();
        let res = guarded(limit_ms, || catch(|| r.push(&endpoint, bytes, now)));
        let us = t0.elapsed().as_micros() as u64;
        let peak = crate::alloc::peak().saturating_sub(live0);
        let cb: Vec<Value> = st.log.borrow_mut().drain(..).collect();
        let (rs, msg) = match &res {
            Err(m) => ("panic", m.clone()),
            Ok(Err(e)) => ("err", format!("{:?}", e)),
            Ok(Ok(())) => ("ok", String::new()),
        };
        let mut ev = json!({"ev":"push","ep":ep,"ts":rel_s(now, st.base_s),"res":rs,"cb":cb,"us":us,"peak":peak,"size":bytes.len(),
                            "ms":beh_start.elapsed().as_millis() as u64});
        for (k, v) in tag.as_object().unwrap() {
            ev[k] = v.clone();
        }
        if rs == "panic" {
            ev["m"] = json!(msg);
            out.emit(&ev);
            return false;
        }
        ev["st"] = snapshot(r, st);
        out.emit(&ev);
        true
    };

    for op in sched {
        if dead {
            break;
        }
        opn += 1;
        CUR_LINE.store(opn, Ordering::Relaxed);
        let a = op.as_array().unwrap();
        let name = a[0].as_str().unwrap_or("");
        let (sid, ep) = streams[cur_stream.min(streams.len() - 1)];
        let s = &sessions[sid];
        match name {
            "stream" => cur_stream = a[1].as_u64().unwrap() as usize,
            "delay" => delay_us = a[1].as_i64().unwrap() * 1_000_000,
            "skew" => skew_us = a[1].as_i64().unwrap() * 1_000_000,
            "now" => fixed_now = if a[1].as_i64().unwrap() < 0 { None } else { Some(a[1].as_i64().unwrap()) },
            "sleep" => {
                std::thread::sleep(Duration::from_millis(a[1].as_u64().unwrap()));
                out.emit(&json!({"ev":"sleep","ms":a[1]}));
            }
            "p" | "pm" | "seq" => {
                let (from, to) = match name {
                    "seq" => (a[1].as_u64().unwrap() as usize, a[2].as_u64().unwrap() as usize),
                    _ => (a[1].as_u64().unwrap() as usize, a[1].as_u64().unwrap() as usize),
                };
                for i in from..=to {
                    if i == 0 || i > s.pkts.len() {
                        continue;
                    }
                    let (t, bytes, p) = &s.pkts[i - 1];
                    let now = time_of(fixed_now.unwrap_or(*t), s.tick_us, delay_us, skew_us);
                    last_now = now;
                    let (data, tag) = if name == "pm" {
                        let poff = bytes.len() - p["len"].as_u64().unwrap_or(0) as usize;
                        (mutate(bytes, &a[2], poff), json!({"i": i, "mut": a[2], "sid": sid}))
                    } else {
                        (bytes.clone(), json!({"i": i, "sid": sid}))
                    };
                    if !push_bytes(&mut rx, &st, ep, &data, now, tag, out) {
                        dead = true;
                        break;
                    }
                }
            }
            "garbage" | "fuzzhdr" | "mutseq" | "xmlfdt" | "rawset" | "truncall" | "cpswap" => {
                if let Some(r) = rx.as_mut() {
                    let endpoint = make_ep(ep);
                    let mut cases: Vec<Vec<u8>> = Vec::new();
                    match name {
                        "garbage" => {
                            // every byte string of length <= a[1]; for the next length a seeded sample of a[2] strings
                            let maxlen = a[1].as_u64().unwrap() as usize;
                            cases.push(vec![]);
                            for len in 1..=maxlen {
                                let n = 256usize.pow(len as u32);
                                for v in 0..n {
                                    cases.push((0..len).map(|k| ((v >> (8 * (len - 1 - k))) & 0xFF) as u8).collect());
                                }
                            }
                            let nsample = a[2].as_u64().unwrap();
                            let mut x = a.get(3).and_then(|v| v.as_u64()).unwrap_or(1).wrapping_mul(0x9E3779B97F4A7C15) | 1;
                            for _ in 0..nsample {
                                x ^= x << 13; x ^= x >> 7; x ^= x << 17;
                                let len = maxlen + 1 + ((x >> 60) as usize % 2) * ((x >> 50) as usize % 40);
                                let mut v = Vec::with_capacity(len);
                                let mut y = x;
                                for _ in 0..len { y ^= y << 13; y ^= y >> 7; y ^= y << 17; v.push((y >> 32) as u8); }
                                // half of the samples start like a plausible LCT header
                                if x & 1 == 0 && v.len() >= 4 { v[0] = 0x10; v[2] = (v[2] % 12) as u8; }
                                cases.push(v);
                            }
                        }
                        "cpswap" => {
                            // packet a[1] relabelled with the codepoint of every FEC scheme (the receiver frames a datagram with the
                            // codec of its codepoint and decodes the payload id with the codec of the object), with 0..8 bytes or
                            // everything left after the place where the FEC payload id starts
                            let i = a[1].as_u64().unwrap() as usize;
                            if i >= 1 && i <= s.pkts.len() {
                                let (_, bytes, p) = &s.pkts[i - 1];
                                let plen = p["len"].as_u64().unwrap_or(0) as usize;
                                let pid = if bytes.len() > 3 && bytes[3] == 129 { 8 } else { 4 };
                                if bytes.len() >= plen + pid && bytes.len() > 3 {
                                    let hdr_end = bytes.len() - plen - pid;
                                    for cp in [0u8, 1, 2, 5, 6, 129] {
                                        for keep in [0usize, 1, 2, 3, 4, 5, 7, 8, 9, usize::MAX] {
                                            let end = if keep == usize::MAX { bytes.len() } else { (hdr_end + keep).min(bytes.len()) };
                                            let mut v = bytes[..end].to_vec();
                                            v[3] = cp;
                                            cases.push(v);
                                        }
                                    }
                                }
                            }
                        }
                        "truncall" => {
                            // every proper prefix of packet a[1] (truncation at every byte)
                            let i = a[1].as_u64().unwrap() as usize;
                            if i >= 1 && i <= s.pkts.len() {
                                let (_, bytes, _) = &s.pkts[i - 1];
                                for l in 0..bytes.len() {
                                    cases.push(bytes[..l].to_vec());
                                }
                            }
                        }
                        "rawset" => {
                            // datagrams given byte by byte (built by the wire-format specification)
                            for c in a[1].as_array().unwrap() {
                                cases.push(c.as_array().unwrap().iter().map(|b| b.as_u64().unwrap() as u8).collect());
                            }
                        }
                        "fuzzhdr" => {
                            // every single-byte substitution in the header region of packet a[1]
                            let i = a[1].as_u64().unwrap() as usize;
                            if i >= 1 && i <= s.pkts.len() {
                                let (_, bytes, p) = &s.pkts[i - 1];
                                let hdr = bytes.len() - p["len"].as_u64().unwrap_or(0) as usize;
                                for off in 0..hdr {
                                    for val in 0..=255u8 {
                                        if bytes[off] != val {
                                            let mut v = bytes.clone();
                                            v[off] = val;
                                            cases.push(v);
                                        }
                                    }
                                }
                            }
                        }
                        "mutseq" => {
                            // seeded random mutation sequence over the packets of the current stream
                            let seed = a[1].as_u64().unwrap();
                            let n = a[2].as_u64().unwrap();
                            let mut x = seed.wrapping_mul(0xD1B54A32D192ED03) | 1;
                            let mut rnd = || { x ^= x << 13; x ^= x >> 7; x ^= x << 17; x };
                            for _ in 0..n {
                                if s.pkts.is_empty() { break; }
                                let (_, bytes, p) = &s.pkts[(rnd() % s.pkts.len() as u64) as usize];
                                let hdr = bytes.len() - p["len"].as_u64().unwrap_or(0) as usize;
                                let mut v = bytes.clone();
                                let nmut = 1 + rnd() % 3;
                                for _ in 0..nmut {
                                    match rnd() % 8 {
                                        0 => { let o = (rnd() % v.len().max(1) as u64) as usize; if o < v.len() { v[o] ^= 1 << (rnd() % 8); } }
                                        1 => { let o = (rnd() % hdr.max(1) as u64) as usize; if o < v.len() { v[o] = rnd() as u8; } }
                                        2 => { let k = (rnd() % 8) as usize; let l = v.len().saturating_sub(k); v.truncate(l); }
                                        3 => { let k = rnd() % 16; for _ in 0..k { v.push(rnd() as u8); } }
                                        4 => { if v.len() > 2 { v[2] = rnd() as u8; } }                       // HDR_LEN
                                        5 => { if v.len() > 1 { v[1] ^= 0xF0 & (rnd() as u8); } }              // S O H flags
                                        6 => { // splice with another packet
                                            let (_, other, _) = &s.pkts[(rnd() % s.pkts.len() as u64) as usize];
                                            let cut = (rnd() % v.len().max(1) as u64) as usize;
                                            v.truncate(cut);
                                            let c2 = (rnd() % other.len().max(1) as u64) as usize;
                                            v.extend_from_slice(&other[c2..]);
                                        }
                                        _ => { // large values in the words after the LCT header (EXT_FTI fields, payload ids)
                                            if hdr > 8 { let o = 4 + (rnd() % (hdr as u64 - 4)) as usize; if o < v.len() { v[o] = [0u8, 0xFF, 0x80, 0x7F][(rnd() % 4) as usize]; } }
                                        }
                                    }
                                }
                                cases.push(v);
                            }
                        }
                        _ => {
                            // crafted FDT instances (attribute classes) announcing TOI 1 of the current stream, each
                            // followed by the stream's object packets
                            let exp = "4200000000";
                            let file = |attrs: &str| format!("<File Content-Location=\"file:///x\" TOI=\"1\" {}/>", attrs);
                            let inst = |attrs: &str, body: &str| format!("<?xml version=\"1.0\" encoding=\"UTF-8\"?><FDT-Instance xmlns=\"urn:IETF:metadata:2005:FLUTE:FDT\" Expires=\"{}\" {}>{}</FDT-Instance>", exp, attrs, body);
                            let base_oti = "FEC-OTI-FEC-Encoding-ID=\"0\" FEC-OTI-Maximum-Source-Block-Length=\"2\" FEC-OTI-Encoding-Symbol-Length=\"4\"";
                            let mut xmls: Vec<String> = vec![
                                inst(base_oti, &file("Content-Length=\"8\" Transfer-Length=\"8\"")),
                                inst("", &file("Content-Length=\"8\"")),
                                inst(base_oti, &file("")),
                                inst(base_oti, &file("Content-Length=\"0\" Transfer-Length=\"0\"")),
                                inst(base_oti, &file("Content-Length=\"18446744073709551615\" Transfer-Length=\"18446744073709551615\"")),
                                inst(base_oti, &file("Content-Length=\"abc\"")),
                                inst(base_oti, &file("Content-Length=\"-1\"")),
                                inst("FEC-OTI-FEC-Encoding-ID=\"5\" FEC-OTI-Maximum-Source-Block-Length=\"200\" FEC-OTI-Encoding-Symbol-Length=\"4\" FEC-OTI-Max-Number-of-Encoding-Symbols=\"10\"", &file("Transfer-Length=\"8\"")),
                                inst("FEC-OTI-FEC-Encoding-ID=\"0\" FEC-OTI-Maximum-Source-Block-Length=\"0\" FEC-OTI-Encoding-Symbol-Length=\"4\"", &file("Transfer-Length=\"8\"")),
                                inst("FEC-OTI-FEC-Encoding-ID=\"0\" FEC-OTI-Maximum-Source-Block-Length=\"2\" FEC-OTI-Encoding-Symbol-Length=\"0\"", &file("Transfer-Length=\"8\"")),
                                inst("FEC-OTI-FEC-Encoding-ID=\"0\" FEC-OTI-Maximum-Source-Block-Length=\"4294967295\" FEC-OTI-Encoding-Symbol-Length=\"65535\"", &file("Transfer-Length=\"281474976710655\"")),
                                inst("FEC-OTI-FEC-Encoding-ID=\"6\" FEC-OTI-Maximum-Source-Block-Length=\"2\" FEC-OTI-Encoding-Symbol-Length=\"4\" FEC-OTI-Scheme-Specific-Info=\"AAAAAA==\"", &file("Transfer-Length=\"8\"")),
                                inst("FEC-OTI-FEC-Encoding-ID=\"6\" FEC-OTI-Maximum-Source-Block-Length=\"2\" FEC-OTI-Encoding-Symbol-Length=\"4\" FEC-OTI-Scheme-Specific-Info=\"!!!\"", &file("Transfer-Length=\"8\"")),
                                inst("FEC-OTI-FEC-Encoding-ID=\"1\" FEC-OTI-Maximum-Source-Block-Length=\"2\" FEC-OTI-Encoding-Symbol-Length=\"4\"", &file("Transfer-Length=\"8\"")),
                                inst("FEC-OTI-FEC-Encoding-ID=\"2\" FEC-OTI-Maximum-Source-Block-Length=\"2\" FEC-OTI-Encoding-Symbol-Length=\"4\" FEC-OTI-Scheme-Specific-Info=\"IAE=\"", &file("Transfer-Length=\"8\"")),
                                inst("FEC-OTI-FEC-Encoding-ID=\"129\" FEC-OTI-Maximum-Source-Block-Length=\"65535\" FEC-OTI-Encoding-Symbol-Length=\"4\" FEC-OTI-Max-Number-of-Encoding-Symbols=\"3\"", &file("Transfer-Length=\"8\"")),
                                inst("FEC-OTI-FEC-Encoding-ID=\"77\" FEC-OTI-Maximum-Source-Block-Length=\"2\" FEC-OTI-Encoding-Symbol-Length=\"4\"", &file("Transfer-Length=\"8\"")),
                                inst(base_oti, &file("Transfer-Length=\"8\" Content-Encoding=\"gzip\"")),
                                inst(base_oti, &file("Transfer-Length=\"8\" Content-Encoding=\"bogus\" Content-MD5=\"@@@\"")),
                                inst(base_oti, &file("Transfer-Length=\"8\" FEC-OTI-FEC-Encoding-ID=\"5\" FEC-OTI-Maximum-Source-Block-Length=\"9\" FEC-OTI-Encoding-Symbol-Length=\"4\" FEC-OTI-Max-Number-of-Encoding-Symbols=\"1\"")),
                                inst(base_oti, "<File TOI=\"1\"/>"),
                                inst(base_oti, "<File Content-Location=\"file:///x\" TOI=\"x\"/>"),
                                inst(base_oti, "<File Content-Location=\"file:///x\" TOI=\"340282366920938463463374607431768211455\" Transfer-Length=\"8\"/><File Content-Location=\"file:///y\" TOI=\"1\" Transfer-Length=\"8\"/>"),
                                "<FDT-Instance Expires=\"1\"".to_string(),
                                "<?xml version=\"1.0\"?><FDT-Instance Expires=\"x\"></FDT-Instance>".to_string(),
                                "<?xml version=\"1.0\"?><Other/>".to_string(),
                                "\u{0}\u{1}not xml at all".to_string(),
                                format!("<?xml version=\"1.0\"?><FDT-Instance Expires=\"{}\">{}</FDT-Instance>", exp, "<File Content-Location=\"a\" TOI=\"1\"/>".repeat(2000)),
                                inst(base_oti, &format!("<File Content-Location=\"{}\" TOI=\"1\" Transfer-Length=\"8\"/>", "A".repeat(60000))),
                                inst(&format!("{} Complete=\"maybe\" mbms2008:FullFDT=\"7\"", base_oti), &file("Transfer-Length=\"8\"")),
                            ];
                            let which = a.get(1).and_then(|v| v.as_i64()).unwrap_or(-1);
                            if which >= 0 && (which as usize) < xmls.len() {
                                xmls = vec![xmls[which as usize].clone()];
                            }
                            let big = flute::core::Oti::new_no_code(65000, 8);
                            for (k, xml) in xmls.iter().enumerate() {
                                let f = flute::verif::PktFields { cci: 0, tsi: s.tsi, toi: 0, fdt_id: Some(700 + k as u32), sbn: 0, esi: 0,
                                    source_block_length: 1, cenc: flute::core::lct::Cenc::Null, inband_cenc: false, close_object: false,
                                    sender_current_time: false, transfer_length: xml.len() as u64, payload: xml.as_bytes().to_vec() };
                                cases.push(flute::verif::build_alc_pkt(&big, &f, flute::sender::Profile::RFC6726, base_time()));
                                for (_, bytes, p) in &s.pkts {
                                    if p["k"] == "obj" {
                                        cases.push(bytes.clone());
                                    }
                                }
                            }
                        }
                    }
                    let (mut nok, mut nerr, mut npanic) = (0u64, 0u64, 0u64);
                    let (mut maxus, mut maxpeak) = (0u64, 0usize);
                    let mut first_bad = json!({"k":"none"});
                    let total = cases.len();
                    for (ci, c) in cases.iter().enumerate() {
                        CUR_LINE.store(opn * 1_000_000 + ci as i64, Ordering::Relaxed);
                        crate::alloc::reset_peak();
                        let live0 = crate::alloc::live();
                        let t0 = std::time::Instant::now();
                        let res = guarded(limit_ms, || catch(|| r.push(&endpoint, c, last_now)));
                        maxus = maxus.max(t0.elapsed().as_micros() as u64);
                        maxpeak = maxpeak.max(crate::alloc::peak().saturating_sub(live0));
                        match res {
                            Ok(Ok(())) => nok += 1,
                            Ok(Err(_)) => nerr += 1,
                            Err(m) => {
                                npanic += 1;
                                first_bad = json!({"k":"panic","case":ci,"hex":c.iter().take(200).map(|b| format!("{:02x}", b)).collect::<String>(),"len":c.len(),"m":m});
                                dead = true;
                                break;
                            }
                        }
                    }
                    let cb: Vec<Value> = st.log.borrow_mut().drain(..).collect();
                    let mut ev = json!({"ev":"batch","kind":name,"arg":if name == "rawset" { json!(total) } else { a.get(1).cloned().unwrap_or(json!(0)) },"count":total,"ok":nok,"err":nerr,"panic":npanic,
                        "maxus":maxus,"peak":maxpeak,"first_bad":first_bad,"ncb":cb.len(),"cb":cb,"ep":ep,"sid":sid});
                    if !dead {
                        ev["st"] = snapshot(r, &st);
                    }
                    out.emit(&ev);
                }
            }
            "raw" => {
                let h = a[1].as_str().unwrap();
                let data: Vec<u8> = (0..h.len() / 2).map(|i| u8::from_str_radix(&h[2 * i..2 * i + 2], 16).unwrap()).collect();
                if !push_bytes(&mut rx, &st, ep, &data, last_now, json!({"i": 0, "raw": h.len() / 2}), out) {
                    dead = true;
                }
            }
            "c" => {
                if let Some(r) = rx.as_mut() {
                    // optional argument: receiver now in ticks of the current session
                    let now = if a.len() > 1 { time_of(a[1].as_i64().unwrap(), s.tick_us, delay_us, skew_us) } else { last_now };
                    last_now = now;
                    let ms0 = beh_start.elapsed().as_millis() as u64;
                    let res = guarded(limit_ms, || catch(|| r.cleanup(now)));
                    let cb: Vec<Value> = st.log.borrow_mut().drain(..).collect();
                    match res {
                        Err(m) => {
                            out.emit(&json!({"ev":"cleanup","ts":rel_s(now, st.base_s),"res":"panic","m":m,"cb":cb}));
                            dead = true;
                        }
                        Ok(()) => out.emit(&json!({"ev":"cleanup","ts":rel_s(now, st.base_s),"res":"ok","cb":cb,"st":snapshot(r, &st),"ms":ms0})),
                    }
                }
            }
            "listen" => {
                // ["listen", op, ep, tsi]
                if let Some(r) = rx.as_mut() {
                    let lop = a[1].as_str().unwrap_or("");
                    let lep = a.get(2).and_then(|x| x.as_u64()).unwrap_or(10);
                    let ltsi = a.get(3).and_then(|x| x.as_u64()).unwrap_or(1);
                    let res = catch(|| match lop {
                        "add" => r.add_listen_tsi(make_ep(lep), ltsi),
                        "remove" => r.remove_listen_tsi(&make_ep(lep), ltsi),
                        "addall" => r.add_listen_all_tsi(make_ep(lep)),
                        "removeall" => r.remove_listen_all_tsi(&make_ep(lep)),
                        "filter_on" => r.set_tsi_filtering(true),
                        "filter_off" => r.set_tsi_filtering(false),
                        _ => {}
                    });
                    out.emit(&json!({"ev":"listen","op":lop,"ep":lep,"tsi":ltsi,"res":if res.is_ok() {"ok"} else {"panic"}}));
                }
            }
            "d" => {
                if let Some(r) = rx.take() {
                    let res = guarded(limit_ms, || catch(move || drop(r)));
                    let cb: Vec<Value> = st.log.borrow_mut().drain(..).collect();
                    out.emit(&json!({"ev":"drop","res":if res.is_ok() {"ok"} else {"panic"},"cb":cb,"heap":crate::alloc::live()}));
                }
            }
            _ => {}
        }
    }
    // end of behaviour: drop what is left (callbacks of the drop are part of the trace)
    if let Some(r) = rx.take() {
        if !dead {
            let res = guarded(limit_ms, || catch(move || drop(r)));
            let cb: Vec<Value> = st.log.borrow_mut().drain(..).collect();
            out.emit(&json!({"ev":"drop","res":if res.is_ok() {"ok"} else {"panic"},"cb":cb,"final":true,"heap":crate::alloc::live()}));
        } else {
            std::mem::forget(r);
        }
    }
    out.emit(&json!({"ev":"end","beh":bid,"dead":dead}));
}

pub fn replay_receiver(args: &Args) {
    let specs = read_lines(&args.str("sessions", "-"));
    let behs = read_lines(&args.str("in", "-"));
    let outp = args.str("out", "-");
    let mut out = Out::new(Some(&outp));
    let limit_ms = args.u64("limit_ms", 4000);
    let skip: Vec<i64> = args.str("skip", "").split(',').filter(|s| !s.is_empty()).map(|s| s.parse().unwrap()).collect();
    let from = args.u64("from", 0) as usize;
    start_watchdog(format!("{}.timeout", outp), limit_ms);
    // build only the sessions that are used
    let mut used: Vec<bool> = vec![false; specs.len()];
    for b in &behs {
        match b.get("streams").and_then(|s| s.as_array()) {
            Some(a) => for x in a { if let Some(s) = x[0].as_u64() { if (s as usize) < used.len() { used[s as usize] = true; } } },
            None => { let s = jopt_i(b, "sid", 0) as usize; if s < used.len() { used[s] = true; } }
        }
    }
    let sessions: Vec<Session> = specs.iter().enumerate().map(|(i, s)| {
        if used[i] { build_session(i, s) } else {
            Session { sid: i, spec: json!({}), pkts: vec![], events: vec![], contents: vec![], toi2o: HashMap::new(), tick_us: 1000, tsi: 1 }
        }
    }).collect();
    let _ = Arc::new(0);
    for (n, beh) in behs.iter().enumerate() {
        if n < from {
            continue;
        }
        let bid = beh.get("beh").and_then(|b| b.as_i64()).unwrap_or(-1);
        if skip.contains(&bid) {
            out.emit(&json!({"ev":"reset","beh":bid,"skip":"hang"}));
            continue;
        }
        let r = catch(|| run_rx_behaviour(beh, &sessions, &mut out, limit_ms));
        if let Err(m) = r {
            out.emit(&json!({"ev":"harness_panic","beh":bid,"m":m}));
        }
        out.flush();
    }
    out.flush();
}
