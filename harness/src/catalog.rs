//! Construction of real flute objects / configurations from abstract JSON descriptions
//! (TLC-generated or produced by the seeded drivers), plus the harness's own reference
//! partition (u128, written from RFC 5052, independent of flute).
use crate::util::*;
use flute::core::lct::Cenc;
use flute::core::Oti;
use flute::sender::{
    CacheControl, CarouselRepeatMode, Config, FDTPublishMode, ObjectDataSource, ObjectDesc, PriorityQueue,
    TOIMaxLength, TargetAcquisition, TransferConfig,
};
use serde_json::{json, Value};
use std::io::{Read, Seek, SeekFrom};
use std::sync::atomic::{AtomicU64, Ordering};
use std::sync::Arc;
use std::time::Duration;

/// reference partition: (a_large, a_small, nb_large, n)
pub fn refpart(l: u128, e: u128, b: u128) -> (u128, u128, u128, u128) {
    if e == 0 || b == 0 {
        return (0, 0, 0, 0);
    }
    let t = (l + e - 1) / e;
    let n = (t + b - 1) / b;
    if n == 0 {
        return (0, 0, 0, 0);
    }
    let al = (t + n - 1) / n;
    let as_ = t / n;
    (al, as_, t - as_ * n, n)
}

/// number of source symbols of block `sbn` and the symbol index of its first symbol
pub fn ref_block(l: u128, e: u128, b: u128, sbn: u128) -> (u128, u128) {
    let (al, as_, nl, n) = refpart(l, e, b);
    if sbn >= n {
        return (0, 0);
    }
    if sbn < nl {
        (al, sbn * al)
    } else {
        (as_, nl * al + (sbn - nl) * as_)
    }
}

pub fn cenc_of(n: i64) -> Cenc {
    match n {
        1 => Cenc::Zlib,
        2 => Cenc::Deflate,
        3 => Cenc::Gzip,
        _ => Cenc::Null,
    }
}

pub fn cenc_num(c: Cenc) -> i64 {
    c as u8 as i64
}

/// Build an Oti from {scheme, E, B, par, fti, al, nsub}
pub fn make_oti(v: &Value) -> Result<Oti, String> {
    let scheme = ji(v, "scheme");
    let e = ju(v, "E") as u16;
    let b = ju(v, "B");
    let par = jopt_i(v, "par", 0) as u64;
    let al = jopt_i(v, "al", 1) as u8;
    let nsub = jopt_i(v, "nsub", 1);
    let mut oti = match scheme {
        0 => Oti::new_no_code(e, b as u16),
        5 => Oti::new_reed_solomon_rs28(e, b as u8, par as u8).map_err(|e| format!("{:?}", e))?,
        129 => Oti::new_reed_solomon_rs28_under_specified(e, b as u16, par as u16).map_err(|e| format!("{:?}", e))?,
        6 => Oti::new_raptorq(e, b as u16, par as u16, nsub as u16, al).map_err(|e| format!("{:?}", e))?,
        1 => Oti::new_raptor(e, b as u16, par as u16, nsub as u8, al).map_err(|e| format!("{:?}", e))?,
        2 => flute::verif::new_rs2m_oti(e, b as u32, par as u32, jopt_i(v, "m", 8) as u8, jopt_i(v, "g", 1) as u8),
        _ => return Err(format!("unknown scheme {}", scheme)),
    };
    oti.inband_fti = jopt_b(v, "fti", true);
    Ok(oti)
}

pub fn toi_width(n: i64) -> TOIMaxLength {
    match n {
        16 => TOIMaxLength::ToiMax16,
        32 => TOIMaxLength::ToiMax32,
        48 => TOIMaxLength::ToiMax48,
        64 => TOIMaxLength::ToiMax64,
        80 => TOIMaxLength::ToiMax80,
        _ => TOIMaxLength::ToiMax112,
    }
}

fn carousel(v: Option<&Value>, tick_us: u64) -> Option<CarouselRepeatMode> {
    let v = v?;
    let a = v.as_array()?;
    let kind = a.get(0)?.as_str()?;
    let d = a.get(1).and_then(|x| x.as_u64()).unwrap_or(0);
    match kind {
        "delay" => Some(CarouselRepeatMode::DelayBetweenTransfers(Duration::from_micros(d * tick_us))),
        "interval" => Some(CarouselRepeatMode::IntervalBetweenStartTimes(Duration::from_micros(d * tick_us))),
        _ => None,
    }
}

pub fn make_config(cfg: &Value) -> Config {
    let tick_us = jopt_i(cfg, "tick_us", 1000) as u64;
    let mut queues = std::collections::BTreeMap::new();
    match cfg.get("queues").and_then(|q| q.as_array()) {
        Some(qs) => {
            for q in qs {
                let a = q.as_array().unwrap();
                queues.insert(a[0].as_u64().unwrap() as u32, PriorityQueue::new(a[1].as_u64().unwrap() as u32));
            }
        }
        None => {
            queues.insert(0, PriorityQueue::new(3));
        }
    }
    let toi_init = jopt_i(cfg, "toi_init", 1);
    let toi_initial_value: Option<u128> = if toi_init < 0 {
        None
    } else if let Some(hex) = cfg.get("toi_init_hex").and_then(|x| x.as_str()) {
        Some(u128::from_str_radix(hex, 16).unwrap())
    } else {
        Some(toi_init as u128)
    };
    Config {
        fdt_duration: Duration::from_secs(jopt_i(cfg, "fdt_dur", 3600) as u64),
        fdt_carousel_mode: carousel(cfg.get("fdt_car"), tick_us)
            .unwrap_or(CarouselRepeatMode::DelayBetweenTransfers(Duration::from_secs(1))),
        fdt_start_id: jopt_i(cfg, "fdt_start", 1) as u32,
        fdt_cenc: cenc_of(jopt_i(cfg, "fdt_cenc", 0)),
        fdt_inband_sct: jopt_b(cfg, "sct", true),
        fdt_publish_mode: if jopt_s(cfg, "mode", "full") == "obt" {
            FDTPublishMode::ObjectsBeingTransferred
        } else {
            FDTPublishMode::FullFDT
        },
        priority_queues: queues,
        interleave_blocks: jopt_i(cfg, "interleave", 4) as u8,
        profile: if jopt_i(cfg, "profile", 2) == 1 { flute::sender::Profile::RFC3926 } else { flute::sender::Profile::RFC6726 },
        toi_max_length: toi_width(jopt_i(cfg, "toi_w", 112)),
        toi_initial_value,
        groups: cfg.get("groups").and_then(|g| g.as_array()).and_then(|a| {
            if a.is_empty() { None } else { Some(a.iter().map(|s| s.as_str().unwrap().to_string()).collect()) }
        }),
    }
}

/// A seekable stream over a buffer whose `read` returns at most the next size of a cyclic
/// chunk schedule, and which can pretend to be longer than it is (fake_len) for limit tests.
#[derive(Debug)]
pub struct ScriptedStream {
    pub data: Arc<Vec<u8>>,
    pub pos: u64,
    pub chunks: Vec<usize>,
    pub idx: usize,
    pub fake_len: Option<u64>,
    pub seeks_to_start: Arc<AtomicU64>,
    pub reads: Arc<AtomicU64>,
}

impl Read for ScriptedStream {
    fn read(&mut self, buf: &mut [u8]) -> std::io::Result<usize> {
        self.reads.fetch_add(1, Ordering::Relaxed);
        let len = self.fake_len.unwrap_or(self.data.len() as u64);
        if self.pos >= len || buf.is_empty() {
            return Ok(0);
        }
        let mut n = buf.len().min((len - self.pos) as usize);
        if !self.chunks.is_empty() {
            let c = self.chunks[self.idx % self.chunks.len()].max(1);
            self.idx += 1;
            n = n.min(c);
        }
        for i in 0..n {
            let p = self.pos as usize + i;
            buf[i] = if p < self.data.len() { self.data[p] } else { 0 };
        }
        self.pos += n as u64;
        Ok(n)
    }
}

impl Seek for ScriptedStream {
    fn seek(&mut self, pos: SeekFrom) -> std::io::Result<u64> {
        let len = self.fake_len.unwrap_or(self.data.len() as u64) as i128;
        let np: i128 = match pos {
            SeekFrom::Start(p) => p as i128,
            SeekFrom::End(d) => len + d as i128,
            SeekFrom::Current(d) => self.pos as i128 + d as i128,
        };
        if np < 0 {
            return Err(std::io::Error::new(std::io::ErrorKind::InvalidInput, "negative seek"));
        }
        if np == 0 {
            self.seeks_to_start.fetch_add(1, Ordering::Relaxed);
            // the chunk schedule restarts with the stream (every transfer sees the same schedule)
            self.idx = 0;
        }
        self.pos = np as u64;
        Ok(self.pos)
    }
}

pub struct BuiltObject {
    pub desc: Option<Box<ObjectDesc>>,
    pub content: Vec<u8>,       // what the application gave
    pub transfer: Vec<u8>,      // transfer-encoded bytes (what must be on the wire)
    pub transfer_length: u64,
    pub oti: Oti,               // effective OTI (override or default)
    pub priority: u32,
    pub info: Value,            // catalogue entry logged in the reset event
    pub tmpfile: Option<tempfile::NamedTempFile>,
}

fn tstr(v: &Value, k: &str, d: &str) -> String {
    v.get(k).and_then(|x| x.as_str()).unwrap_or(d).to_string()
}

/// the application content of object `idx` (1-based) described by `o`
pub fn object_content(idx: usize, o: &Value) -> Vec<u8> {
    let clen = jopt_i(o, "clen", 0) as usize;
    let seed = jopt_i(o, "seed", idx as i64) as u64;
    match o.get("content_hex").and_then(|x| x.as_str()) {
        Some(h) => (0..h.len() / 2).map(|i| u8::from_str_radix(&h[2 * i..2 * i + 2], 16).unwrap()).collect(),
        // "fill": "low" -> compressible content (a short period), so that a content encoding shortens the transfer
        None => match o.get("fill").and_then(|x| x.as_str()) {
            Some("low") => (0..clen).map(|i| b"abcab"[(i + seed as usize) % 5]).collect(),
            _ => gen_content(seed, clen),
        },
    }
}

/// Build object `idx` (1-based) from its description.
pub fn build_object(idx: usize, o: &Value, default_oti: &Oti, tick_us: u64) -> Result<BuiltObject, String> {
    let content: Vec<u8> = object_content(idx, o);
    let cenc = cenc_of(jopt_i(o, "cenc", 0));
    let oti_override = match o.get("oti") {
        Some(v) if v.is_object() => Some(make_oti(v)?),
        _ => None,
    };
    let eff_oti = oti_override.clone().unwrap_or(default_oti.clone());
    let start = jopt_i(o, "start", -1);
    let target = match o.get("target").and_then(|t| t.as_array()) {
        Some(a) => match a[0].as_str().unwrap_or("none") {
            "asap" => Some(TargetAcquisition::AsFastAsPossible),
            "dur" => Some(TargetAcquisition::WithinDuration(Duration::from_micros(a[1].as_u64().unwrap() * tick_us))),
            "time" => Some(TargetAcquisition::WithinTime(vtime(a[1].as_i64().unwrap(), tick_us))),
            _ => None,
        },
        None => None,
    };
    let cache = match o.get("cache").and_then(|t| t.as_array()) {
        Some(a) => match a[0].as_str().unwrap_or("none") {
            "nocache" => Some(CacheControl::NoCache),
            "maxstale" => Some(CacheControl::MaxStale),
            "expires" => Some(CacheControl::Expires(Duration::from_secs(a[1].as_u64().unwrap()))),
            "expiresat" => Some(CacheControl::ExpiresAt(vtime(a[1].as_i64().unwrap(), 1_000_000))),
            _ => None,
        },
        None => None,
    };
    let groups: Option<Vec<String>> = o.get("groups").and_then(|g| g.as_array()).and_then(|a| {
        if a.is_empty() { None } else { Some(a.iter().map(|s| s.as_str().unwrap().to_string()).collect()) }
    });
    let etag = o.get("etag").and_then(|x| x.as_str()).filter(|s| !s.is_empty()).map(|s| s.to_string());
    let imm = o.get("imm").and_then(|x| x.as_bool());
    let config = TransferConfig {
        max_transfer_count: jopt_i(o, "count", 1) as u32,
        carousel_mode: carousel(o.get("car"), tick_us),
        target_acquisition: target,
        cache_control: cache,
        groups: groups.clone(),
        cenc,
        inband_cenc: jopt_b(o, "icenc", false),
        oti: oti_override.clone(),
        transfer_start_time: if start >= 0 { Some(vtime(start, tick_us)) } else { None },
        toi: None,
        optel_propagator: None,
        e_tag: etag.clone(),
        allow_immediate_stop_before_first_transfer: imm,
    };
    let loc = tstr(o, "loc", &format!("file:///obj{}.bin", idx));
    let url = url::Url::parse(&loc).map_err(|e| format!("url {:?}", e))?;
    let ctype = tstr(o, "type", "application/octet-stream");
    let md5 = jopt_b(o, "md5", true);
    let src = tstr(o, "src", "buffer");
    let mut tmpfile = None;
    let desc = match src.as_str() {
        "buffer" => ObjectDesc::create_from_buffer(content.clone(), &ctype, &url, md5, config),
        "stream" => {
            let chunks: Vec<usize> = o
                .get("chunks")
                .and_then(|c| c.as_array())
                .map(|a| a.iter().map(|x| x.as_u64().unwrap() as usize).collect())
                .unwrap_or_default();
            let st = ScriptedStream {
                data: Arc::new(content.clone()),
                pos: 0,
                chunks,
                idx: 0,
                fake_len: o.get("fake_len_hex").and_then(|x| x.as_str()).map(|h| u64::from_str_radix(h, 16).unwrap()),
                seeks_to_start: Arc::new(AtomicU64::new(0)),
                reads: Arc::new(AtomicU64::new(0)),
            };
            ObjectDesc::create_from_stream(Box::new(st), &ctype, &url, md5, config)
        }
        "file" | "bufreader" => {
            use std::io::Write;
            let mut f = tempfile::NamedTempFile::new().map_err(|e| e.to_string())?;
            f.write_all(&content).map_err(|e| e.to_string())?;
            f.flush().ok();
            let r = if src == "file" {
                ObjectDesc::create_from_file(f.path(), Some(&url), &ctype, false, md5, config)
            } else {
                let file = std::fs::File::open(f.path()).map_err(|e| e.to_string())?;
                ObjectDesc::create_from_stream(Box::new(std::io::BufReader::with_capacity(
                    jopt_i(o, "bufcap", 64) as usize, file)), &ctype, &url, md5, config)
            };
            tmpfile = Some(f);
            r
        }
        _ => return Err(format!("unknown src {}", src)),
    }
    .map_err(|e| format!("create object: {:?}", e))?;

    let transfer: Vec<u8> = match &desc.source {
        ObjectDataSource::Buffer(b) => b.clone(),
        ObjectDataSource::Stream(_) => content.clone(),
    };
    let transfer_length = desc.transfer_length;
    let par = eff_oti.max_number_of_parity_symbols;
    let md5_b64 = if md5 {
        use std::fmt::Write;
        let d = md5::compute(&content);
        // independent base64 of the MD5 (RFC 2616 14.15)
        let tbl = b"ABCDEFGHIJKLMNOPQRSTUVWXYZabcdefghijklmnopqrstuvwxyz0123456789+/";
        let mut s = String::new();
        for ch in d.0.chunks(3) {
            let b = [ch[0], *ch.get(1).unwrap_or(&0), *ch.get(2).unwrap_or(&0)];
            let n = ((b[0] as u32) << 16) | ((b[1] as u32) << 8) | b[2] as u32;
            let _ = write!(s, "{}", tbl[(n >> 18) as usize & 63] as char);
            let _ = write!(s, "{}", tbl[(n >> 12) as usize & 63] as char);
            if ch.len() > 1 { let _ = write!(s, "{}", tbl[(n >> 6) as usize & 63] as char); } else { s.push('='); }
            if ch.len() > 2 { let _ = write!(s, "{}", tbl[n as usize & 63] as char); } else { s.push('='); }
        }
        s
    } else {
        String::new()
    };
    let fake_len: Option<u64> = o.get("fake_len_hex").and_then(|x| x.as_str()).map(|h| u64::from_str_radix(h, 16).unwrap());
    let small_l = if transfer_length < (1u64 << 31) { transfer_length as i64 } else { -1 };
    let info = json!({
        "o": idx, "q": jopt_i(o, "q", 0), "L": small_l, "Lx": format!("{:x}", transfer_length),
        "clen": match fake_len { Some(f) if f >= (1u64 << 31) => -1, Some(f) => f as i64, None => content.len() as i64 },
        "clenx": format!("{:x}", fake_len.unwrap_or(content.len() as u64)),
        "E": eff_oti.encoding_symbol_length, "B": eff_oti.maximum_source_block_length,
        "par": par, "scheme": eff_oti.fec_encoding_id as u8, "fti": eff_oti.inband_fti,
        "own_oti": oti_override.is_some(),
        "cenc": cenc_num(cenc), "icenc": jopt_b(o, "icenc", false),
        "count": jopt_i(o, "count", 1), "car": o.get("car").cloned().unwrap_or(json!(["none"])),
        "start": start, "target": o.get("target").cloned().unwrap_or(json!(["none"])),
        "imm": imm.unwrap_or(false), "src": src, "loc": url.as_str(), "type": ctype, "md5": md5_b64,
        "etag": etag.unwrap_or_default(), "groups": groups.unwrap_or_default(),
        "cache": o.get("cache").cloned().unwrap_or(json!(["none"])),
        "digest": dg_full(&content), "tdigest": dg_full(&transfer),
    });
    Ok(BuiltObject {
        desc: Some(desc),
        content,
        transfer,
        transfer_length,
        oti: eff_oti,
        priority: jopt_i(o, "q", 0) as u32,
        info,
        tmpfile,
    })
}
