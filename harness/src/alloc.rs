//! Counting global allocator: live and peak heap bytes of the harness process.
use std::alloc::{GlobalAlloc, Layout, System};
use std::sync::atomic::{AtomicUsize, Ordering};

pub struct Counting;
static LIVE: AtomicUsize = AtomicUsize::new(0);
static PEAK: AtomicUsize = AtomicUsize::new(0);

unsafe impl GlobalAlloc for Counting {
    unsafe fn alloc(&self, l: Layout) -> *mut u8 {
        let p = System.alloc(l);
        if !p.is_null() {
            let v = LIVE.fetch_add(l.size(), Ordering::Relaxed) + l.size();
            PEAK.fetch_max(v, Ordering::Relaxed);
        }
        p
    }
    unsafe fn dealloc(&self, p: *mut u8, l: Layout) {
        System.dealloc(p, l);
        LIVE.fetch_sub(l.size(), Ordering::Relaxed);
    }
    unsafe fn realloc(&self, p: *mut u8, l: Layout, new: usize) -> *mut u8 {
        let q = System.realloc(p, l, new);
        if !q.is_null() {
            if new >= l.size() {
                let v = LIVE.fetch_add(new - l.size(), Ordering::Relaxed) + (new - l.size());
                PEAK.fetch_max(v, Ordering::Relaxed);
            } else {
                LIVE.fetch_sub(l.size() - new, Ordering::Relaxed);
            }
        }
        q
    }
}

pub fn live() -> usize {
    LIVE.load(Ordering::Relaxed)
}
/// resets the peak to the current live value and returns the previous peak
pub fn reset_peak() -> usize {
    PEAK.swap(LIVE.load(Ordering::Relaxed), Ordering::Relaxed)
}
pub fn peak() -> usize {
    PEAK.load(Ordering::Relaxed)
}
