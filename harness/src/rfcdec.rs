//! Independent ALC/LCT decoder written from the RFC layouts (RFC 5651 LCT header and
//! extensions, RFC 5775 EXT_FTI, RFC 6726 EXT_FDT / EXT_CENC, RFC 5445 / 5510 / 6330 / 5053
//! FEC OTI and FEC Payload IDs).  It shares no code with flute's parser.  It is itself checked
//! against spec/Wire.tla by the C06 check.
use serde_json::{json, Value};

#[derive(Debug, Clone, Default)]
pub struct Fti {
    pub fec: u8,
    pub hel: u8,
    pub transfer_length: u64,
    pub e: u32,
    pub b: u32,
    pub max_n: u32,
    pub instance_id: u32,
    pub m: u32,
    pub g: u32,
    pub z: u32,
    pub n: u32,
    pub al: u32,
}

#[derive(Debug, Clone, Default)]
pub struct Sct {
    pub sct_hi: Option<u32>,
    pub sct_lo: Option<u32>,
    pub ert: Option<u32>,
    pub slc: Option<u32>,
}

#[derive(Debug, Clone, Default)]
pub struct Dec {
    pub version: u8,
    pub c: u8,
    pub psi: u8,
    pub s: u8,
    pub o: u8,
    pub h: u8,
    pub close_session: bool,
    pub close_object: bool,
    pub hdr_len: usize, // bytes
    pub cp: u8,
    pub cci: u128,
    pub tsi: u64,
    pub toi: u128,
    pub ext_fdt: Option<(u8, u32)>, // (version, instance id)
    pub ext_cenc: Option<u8>,
    pub ext_time: Option<Sct>,
    pub fti: Option<Fti>,
    pub unknown_exts: Vec<(u8, usize)>,
    pub sbn: u32,
    pub esi: u32,
    pub sbl: Option<u32>,
    pub payload_off: usize,
}

fn be(data: &[u8]) -> u128 {
    let mut v: u128 = 0;
    for b in data {
        v = (v << 8) | (*b as u128);
    }
    v
}

/// Decode `data`.  `fec_for_payload_id`: FEC Encoding ID used to interpret the FEC Payload ID
/// (the codepoint by FLUTE convention); `m` is the RS(2^m) field size when needed.
pub fn decode(data: &[u8], m_rs2m: u32) -> Result<Dec, String> {
    if data.len() < 4 {
        return Err("short: no LCT word".into());
    }
    let mut d = Dec::default();
    d.version = data[0] >> 4;
    d.c = (data[0] >> 2) & 3;
    d.psi = data[0] & 3;
    d.s = data[1] >> 7;
    d.o = (data[1] >> 5) & 3;
    d.h = (data[1] >> 4) & 1;
    d.close_session = (data[1] >> 1) & 1 == 1;
    d.close_object = data[1] & 1 == 1;
    d.hdr_len = data[2] as usize * 4;
    d.cp = data[3];
    if d.version != 1 {
        return Err(format!("version {}", d.version));
    }
    let cci_len = 4 * (d.c as usize + 1);
    let tsi_len = 4 * d.s as usize + 2 * d.h as usize;
    let toi_len = 4 * d.o as usize + 2 * d.h as usize;
    let fixed = 4 + cci_len + tsi_len + toi_len;
    if d.hdr_len < fixed || d.hdr_len > data.len() {
        return Err(format!("hdr_len {} fixed {} pkt {}", d.hdr_len, fixed, data.len()));
    }
    let mut off = 4;
    d.cci = be(&data[off..off + cci_len]);
    off += cci_len;
    d.tsi = be(&data[off..off + tsi_len]) as u64;
    off += tsi_len;
    d.toi = be(&data[off..off + toi_len]);
    off += toi_len;
    // header extensions
    while off < d.hdr_len {
        if d.hdr_len - off < 4 {
            return Err("extension area not word aligned".into());
        }
        let het = data[off];
        let len = if het >= 128 { 4 } else { data[off + 1] as usize * 4 };
        if len == 0 || off + len > d.hdr_len {
            return Err(format!("extension het={} len={} overruns header", het, len));
        }
        let ext = &data[off..off + len];
        match het {
            192 => {
                let w = be(&ext[0..4]) as u32;
                d.ext_fdt = Some((((w >> 20) & 0xF) as u8, w & 0xFFFFF));
            }
            193 => {
                d.ext_cenc = Some(ext[1]);
            }
            2 => {
                let usebits = ext[2];
                let mut s = Sct::default();
                let mut p = 4;
                let mut take = |present: bool| -> Result<Option<u32>, String> {
                    if !present {
                        return Ok(None);
                    }
                    if p + 4 > ext.len() {
                        return Err("EXT_TIME too short".to_string());
                    }
                    let v = be(&ext[p..p + 4]) as u32;
                    p += 4;
                    Ok(Some(v))
                };
                s.sct_hi = take(usebits & 0x80 != 0)?;
                s.sct_lo = take(usebits & 0x40 != 0)?;
                s.ert = take(usebits & 0x20 != 0)?;
                s.slc = take(usebits & 0x10 != 0)?;
                d.ext_time = Some(s);
            }
            64 => {
                let mut f = Fti::default();
                f.fec = d.cp;
                f.hel = ext[1];
                match d.cp {
                    0 => {
                        if len != 16 { return Err("FTI(0) length".into()); }
                        f.transfer_length = be(&ext[2..8]) as u64;
                        f.e = be(&ext[10..12]) as u32;
                        f.b = be(&ext[12..16]) as u32;
                    }
                    129 => {
                        if len != 16 { return Err("FTI(129) length".into()); }
                        f.transfer_length = be(&ext[2..8]) as u64;
                        f.instance_id = be(&ext[8..10]) as u32;
                        f.e = be(&ext[10..12]) as u32;
                        f.b = be(&ext[12..14]) as u32;
                        f.max_n = be(&ext[14..16]) as u32;
                    }
                    5 => {
                        if len != 12 { return Err("FTI(5) length".into()); }
                        f.transfer_length = be(&ext[2..8]) as u64;
                        f.e = be(&ext[8..10]) as u32;
                        f.b = ext[10] as u32;
                        f.max_n = ext[11] as u32;
                    }
                    2 => {
                        if len != 16 { return Err("FTI(2) length".into()); }
                        f.transfer_length = be(&ext[2..8]) as u64;
                        f.m = ext[8] as u32;
                        f.g = ext[9] as u32;
                        f.e = be(&ext[10..12]) as u32;
                        f.b = be(&ext[12..14]) as u32;
                        f.max_n = be(&ext[14..16]) as u32;
                    }
                    6 => {
                        // RFC 6330 3.3.2/3.3.3: F(40) reserved(8) T(16) | Z(8) N(16) Al(8) | padding
                        if len != 16 { return Err("FTI(6) length".into()); }
                        f.transfer_length = be(&ext[2..7]) as u64;
                        f.e = be(&ext[8..10]) as u32;
                        f.z = ext[10] as u32;
                        f.n = be(&ext[11..13]) as u32;
                        f.al = ext[13] as u32;
                    }
                    1 => {
                        // As flute lays it out (same shape as RaptorQ with Z(16) N(8)): see DESIGN D9,
                        // the Raptor layout is specified up to self-consistency only.
                        if len != 16 { return Err("FTI(1) length".into()); }
                        f.transfer_length = be(&ext[2..7]) as u64;
                        f.e = be(&ext[8..10]) as u32;
                        f.z = be(&ext[10..12]) as u32;
                        f.n = ext[12] as u32;
                        f.al = ext[13] as u32;
                    }
                    _ => return Err(format!("FTI for unknown codepoint {}", d.cp)),
                }
                d.fti = Some(f);
            }
            _ => d.unknown_exts.push((het, len)),
        }
        off += len;
    }
    // FEC payload id
    let pid_len = match d.cp {
        129 => 8,
        0 | 1 | 2 | 5 | 6 => 4,
        _ => return Err(format!("unknown codepoint {}", d.cp)),
    };
    if d.hdr_len + pid_len > data.len() {
        return Err("no room for FEC payload id".into());
    }
    let pid = &data[d.hdr_len..d.hdr_len + pid_len];
    match d.cp {
        0 | 1 => {
            d.sbn = be(&pid[0..2]) as u32;
            d.esi = be(&pid[2..4]) as u32;
        }
        5 => {
            d.sbn = be(&pid[0..3]) as u32;
            d.esi = pid[3] as u32;
        }
        6 => {
            d.sbn = pid[0] as u32;
            d.esi = be(&pid[1..4]) as u32;
        }
        129 => {
            d.sbn = be(&pid[0..4]) as u32;
            d.sbl = Some(be(&pid[4..6]) as u32);
            d.esi = be(&pid[6..8]) as u32;
        }
        2 => {
            let w = be(&pid[0..4]) as u32;
            let m = if m_rs2m == 0 { 8 } else { m_rs2m };
            if m >= 32 {
                return Err("m >= 32".into());
            }
            d.sbn = w >> m;
            d.esi = w & ((1u32 << m) - 1);
        }
        _ => unreachable!(),
    }
    d.payload_off = d.hdr_len + pid_len;
    Ok(d)
}

/// NTP (seconds since 1900, 32.32 fixed point) to microseconds since the UNIX epoch,
/// rounding to the nearest microsecond.
pub fn ntp_to_unix_us(hi: u32, lo: u32) -> Option<i128> {
    let secs = hi as i128 - 2_208_988_800i128;
    let us = ((lo as u128 * 1_000_000u128 + (1u128 << 31)) >> 32) as i128;
    Some(secs * 1_000_000 + us)
}

pub fn limbs(v: u128) -> Value {
    let mut out = Vec::new();
    for i in (0..8).rev() {
        out.push(((v >> (16 * i)) & 0xFFFF) as u64);
    }
    json!(out)
}

pub fn small(v: u128) -> i64 {
    if v < (1u128 << 31) {
        v as i64
    } else {
        -1
    }
}
