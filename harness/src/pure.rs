//! Pure-function drivers: partition (C07).
use crate::util::*;
use flute::core::Oti;
use flute::verif;
use serde_json::json;

/// flute's B as rebuilt by the receiver from the Z carried in a RaptorQ (fec 6) or
/// Raptor (fec 1) EXT_FTI, obtained by building a real packet with flute's sender-side
/// packet builder and parsing it with flute's receiver-side parser.
fn b_from_wire(raptorq: bool, l: u64, e: u64, b: u64, z: u64) -> Result<Option<u64>, String> {
    catch(|| {
        let mut oti = if raptorq {
            if z > 255 { return None; }
            Oti::new_raptorq(e as u16, b.min(65535) as u16, 0, 1, 1).ok()?
        } else {
            if z > 65535 { return None; }
            Oti::new_raptor(e as u16, b.min(65535) as u16, 0, 1, 1).ok()?
        };
        // what FileDesc::new does at add time: Z = number of blocks
        if !verif::set_source_blocks_length(&mut oti, z as u32) {
            return None;
        }
        let f = verif::PktFields {
            cci: 0, tsi: 1, toi: 1, fdt_id: None, sbn: 0, esi: 0, source_block_length: 0,
            cenc: flute::core::lct::Cenc::Null, inband_cenc: false, close_object: false,
            sender_current_time: false, transfer_length: l, payload: vec![0u8; 1],
        };
        let bytes = verif::build_alc_pkt(&oti, &f, flute::sender::Profile::RFC6726, base_time());
        let pkt = flute::core::alc::parse_alc_pkt(&bytes).ok()?;
        pkt.oti.map(|o| o.maximum_source_block_length as u64)
    })
}

pub fn partition(args: &Args) {
    let bmin = args.u64("bmin", 1);
    let bmax = args.u64("bmax", 16);
    let emax = args.u64("emax", 8);
    let lmax = args.u64("lmax", 300);
    let mut out = Out::new(args.get("out"));
    for b in bmin..=bmax {
        for e in 1..=emax {
            let mut q = Vec::new();
            let mut rle = Vec::new();
            let mut qz6 = Vec::new();
            let mut qz1 = Vec::new();
            for l in 0..=lmax {
                let quad = catch(|| verif::block_partitioning(b, l, e));
                match quad {
                    Err(m) => {
                        q.push(json!({"k":"panic","m":m}));
                        rle.push(json!({"k":"skip"}));
                        qz6.push(json!({"k":"skip"}));
                        qz1.push(json!({"k":"skip"}));
                    }
                    Ok((al, as_, nl, n)) => {
                        q.push(json!({"k":"ok","v":[al, as_, nl, n]}));
                        // run-length encoding of flute's block_length over every sbn
                        let lens = catch(|| {
                            let mut runs: Vec<(u64, u64)> = Vec::new();
                            for sbn in 0..n {
                                let len = verif::block_length(al, as_, nl, l, e, sbn as u32);
                                match runs.last_mut() {
                                    Some(r) if r.1 == len => r.0 += 1,
                                    _ => runs.push((1, len)),
                                }
                            }
                            runs
                        });
                        rle.push(match lens {
                            Ok(r) => json!({"k":"ok","v":r.iter().map(|(c, l)| json!([c, l])).collect::<Vec<_>>()}),
                            Err(m) => json!({"k":"panic","m":m}),
                        });
                        for (raptorq, dst) in [(true, &mut qz6), (false, &mut qz1)] {
                            if n == 0 {
                                dst.push(json!({"k":"skip"}));
                                continue;
                            }
                            match b_from_wire(raptorq, l, e, b, n) {
                                Ok(Some(b2)) => match catch(|| verif::block_partitioning(b2, l, e)) {
                                    Ok((a, s, i, n2)) => dst.push(json!({"k":"ok","v":[a, s, i, n2]})),
                                    Err(m) => dst.push(json!({"k":"panic","m":m})),
                                },
                                Ok(None) => dst.push(json!({"k":"skip"})),
                                Err(m) => dst.push(json!({"k":"panic","m":m})),
                            }
                        }
                    }
                }
            }
            out.emit(&json!({"ev":"part","B":b,"E":e,"lmax":lmax,"q":q,"rle":rle,"qz6":qz6,"qz1":qz1}));
        }
    }
    out.flush();
}

/// Boundary and seeded random triples up to B < 2^32, E <= 65535, L < 2^48 (C07, judged by
/// Apalache with PartitionCore.tla on unbounded integers).
pub fn partition_big(args: &Args) {
    use rand::{RngExt, SeedableRng};
    let n = args.u64("n", 200);
    let seed = args.u64("seed", 1);
    let mut rng = rand::rngs::StdRng::seed_from_u64(seed);
    let mut out = Out::new(args.get("out"));
    let lb: Vec<u64> = vec![0, 1, 2, 255, 256, 65535, 65536, (1 << 32) - 1, 1 << 32, (1 << 40) - 1, 1 << 40,
                            (1 << 48) - 2, (1 << 48) - 1];
    let eb: Vec<u64> = vec![1, 2, 3, 4, 255, 256, 1024, 1400, 65534, 65535];
    let bb: Vec<u64> = vec![1, 2, 3, 64, 255, 256, 65535, 65536, (1 << 31) - 1, 1 << 31, (1u64 << 32) - 1];
    let mut triples: Vec<(u64, u64, u64)> = Vec::new();
    for &l in &lb { for &e in &eb { for &b in &bb { triples.push((b, e, l)); } } }
    // keep a seeded sample of the boundary product, then seeded random ones
    let mut picked: Vec<(u64, u64, u64)> = Vec::new();
    let nb = (n / 2).min(triples.len() as u64);
    for _ in 0..nb {
        let i = rng.random_range(0..triples.len());
        picked.push(triples.swap_remove(i));
    }
    while (picked.len() as u64) < n {
        let lbits = rng.random_range(0..=48u32);
        let l = if lbits == 0 { 0 } else { rng.random_range(0..(1u64 << lbits)) };
        let ebits = rng.random_range(1..=16u32);
        let e = rng.random_range(1..(1u64 << ebits)).min(65535);
        let bbits = rng.random_range(1..=32u32);
        let b = rng.random_range(1..(1u64 << bbits)).min((1u64 << 32) - 1);
        picked.push((b, e, l));
    }
    for (b, e, l) in picked {
        let quad = catch(|| verif::block_partitioning(b, l, e));
        match quad {
            Err(m) => out.emit(&json!({"ev":"bigpart","B":b,"E":e,"L":l,"q":{"k":"panic","m":m},"bl":[]})),
            Ok((al, as_, nl, nn)) => {
                let mut bl = Vec::new();
                if nn > 0 && nn <= (1u64 << 32) {
                    let mut sbns: Vec<u64> = vec![0, nn - 1, nn / 2];
                    if nl > 0 { sbns.push(nl - 1); }
                    if nl < nn { sbns.push(nl); }
                    sbns.sort(); sbns.dedup();
                    for sbn in sbns {
                        match catch(|| verif::block_length(al, as_, nl, l, e, sbn as u32)) {
                            Ok(len) => bl.push(json!({"k":"ok","sbn":sbn,"len":len})),
                            Err(m) => bl.push(json!({"k":"panic","sbn":sbn,"m":m})),
                        }
                    }
                }
                out.emit(&json!({"ev":"bigpart","B":b,"E":e,"L":l,"q":{"k":"ok","v":[al,as_,nl,nn]},"bl":bl}));
            }
        }
    }
    out.flush();
}
