//! Pure-function drivers: partition (C07).
use crate::util::*;
use flute::core::Oti;
use flute::verif;
use serde_json::json;

/// flute's B as rebuilt by the receiver from the Z carried in a RaptorQ (fec 6) or
/// Raptor (fec 1) EXT_FTI, obtained by building a real packet with flute's sender-side
/// packet builder and parsing it with flute's receiver-side parser.
fn b_from_wire(raptorq: bool, l: u64, e: u64, b: u64, z: u64) -> Result<Option<u64>, String> {
    catch(|| {
        let mut oti = if raptorq {
            if z > 255 { return None; }
            Oti::new_raptorq(e as u16, b.min(65535) as u16, 0, 1, 1).ok()?
        } else {
            if z > 65535 { return None; }
            Oti::new_raptor(e as u16, b.min(65535) as u16, 0, 1, 1).ok()?
        };
        // what FileDesc::new does at add time: Z = number of blocks
        if !verif::set_source_blocks_length(&mut oti, z as u32) {
            return None;
        }
        let f = verif::PktFields {
            cci: 0, tsi: 1, toi: 1, fdt_id: None, sbn: 0, esi: 0, source_block_length: 0,
            cenc: flute::core::lct::Cenc::Null, inband_cenc: false, close_object: false,
            sender_current_time: false, transfer_length: l, payload: vec![0u8; 1],
        };
        let bytes = verif::build_alc_pkt(&oti, &f, flute::sender::Profile::RFC6726, base_time());
        let pkt = flute::core::alc::parse_alc_pkt(&bytes).ok()?;
        pkt.oti.map(|o| o.maximum_source_block_length as u64)
    })
}

pub fn partition(args: &Args) {
    let bmin = args.u64("bmin", 1);
    let bmax = args.u64("bmax", 16);
    let emax = args.u64("emax", 8);
    let lmax = args.u64("lmax", 300);
    let mut out = Out::new(args.get("out"));
    for b in bmin..=bmax {
        for e in 1..=emax {
            let mut q = Vec::new();
            let mut rle = Vec::new();
            let mut qz6 = Vec::new();
            let mut qz1 = Vec::new();
            for l in 0..=lmax {
                let quad = catch(|| verif::block_partitioning(b, l, e));
                match quad {
                    Err(m) => {
                        q.push(json!({"k":"panic","m":m}));
                        rle.push(json!({"k":"skip"}));
                        qz6.push(json!({"k":"skip"}));
                        qz1.push(json!({"k":"skip"}));
                    }
                    Ok((al, as_, nl, n)) => {
                        q.push(json!({"k":"ok","v":[al, as_, nl, n]}));
                        // run-length encoding of flute's block_length over every sbn
                        let lens = catch(|| {
                            let mut runs: Vec<(u64, u64)> = Vec::new();
                            for sbn in 0..n {
                                let len = verif::block_length(al, as_, nl, l, e, sbn as u32);
                                match runs.last_mut() {
                                    Some(r) if r.1 == len => r.0 += 1,
                                    _ => runs.push((1, len)),
                                }
                            }
                            runs
                        });
                        rle.push(match lens {
                            Ok(r) => json!({"k":"ok","v":r.iter().map(|(c, l)| json!([c, l])).collect::<Vec<_>>()}),
                            Err(m) => json!({"k":"panic","m":m}),
                        });
                        for (raptorq, dst) in [(true, &mut qz6), (false, &mut qz1)] {
                            if n == 0 {
                                dst.push(json!({"k":"skip"}));
                                continue;
                            }
                            match b_from_wire(raptorq, l, e, b, n) {
                                Ok(Some(b2)) => match catch(|| verif::block_partitioning(b2, l, e)) {
                                    Ok((a, s, i, n2)) => dst.push(json!({"k":"ok","v":[a, s, i, n2]})),
                                    Err(m) => dst.push(json!({"k":"panic","m":m})),
                                },
                                Ok(None) => dst.push(json!({"k":"skip"})),
                                Err(m) => dst.push(json!({"k":"panic","m":m})),
                            }
                        }
                    }
                }
            }
            out.emit(&json!({"ev":"part","B":b,"E":e,"lmax":lmax,"q":q,"rle":rle,"qz6":qz6,"qz1":qz1}));
        }
    }
    out.flush();
}

/// Boundary and seeded random triples up to B < 2^32, E <= 65535, L < 2^48 (C07, judged by
/// Apalache with PartitionCore.tla on unbounded integers).
pub fn partition_big(args: &Args) {
    use rand::{RngExt, SeedableRng};
    let n = args.u64("n", 200);
    let seed = args.u64("seed", 1);
    let mut rng = rand::rngs::StdRng::seed_from_u64(seed);
    let mut out = Out::new(args.get("out"));
    let lb: Vec<u64> = vec![0, 1, 2, 255, 256, 65535, 65536, (1 << 32) - 1, 1 << 32, (1 << 40) - 1, 1 << 40,
                            (1 << 48) - 2, (1 << 48) - 1];
    let eb: Vec<u64> = vec![1, 2, 3, 4, 255, 256, 1024, 1400, 65534, 65535];
    let bb: Vec<u64> = vec![1, 2, 3, 64, 255, 256, 65535, 65536, (1 << 31) - 1, 1 << 31, (1u64 << 32) - 1];
    let mut triples: Vec<(u64, u64, u64)> = Vec::new();
    for &l in &lb { for &e in &eb { for &b in &bb { triples.push((b, e, l)); } } }
    // keep a seeded sample of the boundary product, then seeded random ones
    let mut picked: Vec<(u64, u64, u64)> = Vec::new();
    let nb = (n / 2).min(triples.len() as u64);
    for _ in 0..nb {
        let i = rng.random_range(0..triples.len());
        picked.push(triples.swap_remove(i));
    }
    while (picked.len() as u64) < n {
        let lbits = rng.random_range(0..=48u32);
        let l = if lbits == 0 { 0 } else { rng.random_range(0..(1u64 << lbits)) };
        let ebits = rng.random_range(1..=16u32);
        let e = rng.random_range(1..(1u64 << ebits)).min(65535);
        let bbits = rng.random_range(1..=32u32);
        let b = rng.random_range(1..(1u64 << bbits)).min((1u64 << 32) - 1);
        picked.push((b, e, l));
    }
    for (b, e, l) in picked {
        let quad = catch(|| verif::block_partitioning(b, l, e));
        match quad {
            Err(m) => out.emit(&json!({"ev":"bigpart","B":b,"E":e,"L":l,"q":{"k":"panic","m":m},"bl":[]})),
            Ok((al, as_, nl, nn)) => {
                let mut bl = Vec::new();
                if nn > 0 && nn <= (1u64 << 32) {
                    let mut sbns: Vec<u64> = vec![0, nn - 1, nn / 2];
                    if nl > 0 { sbns.push(nl - 1); }
                    if nl < nn { sbns.push(nl); }
                    sbns.sort(); sbns.dedup();
                    for sbn in sbns {
                        match catch(|| verif::block_length(al, as_, nl, l, e, sbn as u32)) {
                            Ok(len) => bl.push(json!({"k":"ok","sbn":sbn,"len":len})),
                            Err(m) => bl.push(json!({"k":"panic","sbn":sbn,"m":m})),
                        }
                    }
                }
                out.emit(&json!({"ev":"bigpart","B":b,"E":e,"L":l,"q":{"k":"ok","v":[al,as_,nl,nn]},"bl":bl}));
            }
        }
    }
    out.flush();
}

// --------------------------------------------------------------------------------------------
// C05: filesystem writer confinement

fn xml_escape(s: &str) -> String {
    s.replace('&', "&amp;").replace('<', "&lt;").replace('>', "&gt;").replace('"', "&quot;")
}

fn walk(dir: &std::path::Path, base: &std::path::Path, out: &mut std::collections::BTreeMap<String, String>) {
    if let Ok(rd) = std::fs::read_dir(dir) {
        for e in rd.flatten() {
            let p = e.path();
            let rel = p.strip_prefix(base).unwrap().to_string_lossy().to_string();
            let md = match std::fs::symlink_metadata(&p) {
                Ok(m) => m,
                Err(_) => continue,
            };
            if md.is_dir() {
                out.insert(rel.clone() + "/", "dir".to_string());
                walk(&p, base, out);
            } else {
                let data = std::fs::read(&p).unwrap_or_default();
                out.insert(rel, dg_full(&data));
            }
        }
    }
}

pub fn pathfs(args: &Args) {
    use flute::receiver::writer::ObjectWriterFSBuilder;
    use flute::receiver::MultiReceiver;
    use std::rc::Rc;
    let input = std::fs::read_to_string(args.str("in", "-")).expect("input");
    let mut out = Out::new(args.get("out"));
    let content: Vec<u8> = b"PAYLOAD!".to_vec();
    let md5_ok = {
        // base64 of md5 via flute's own sender (cheap way: compute here)
        let d = md5::compute(&content);
        let tbl = b"ABCDEFGHIJKLMNOPQRSTUVWXYZabcdefghijklmnopqrstuvwxyz0123456789+/";
        let mut s = String::new();
        for ch in d.0.chunks(3) {
            let b = [ch[0], *ch.get(1).unwrap_or(&0), *ch.get(2).unwrap_or(&0)];
            let n = ((b[0] as u32) << 16) | ((b[1] as u32) << 8) | b[2] as u32;
            s.push(tbl[(n >> 18) as usize & 63] as char);
            s.push(tbl[(n >> 12) as usize & 63] as char);
            s.push(if ch.len() > 1 { tbl[(n >> 6) as usize & 63] as char } else { '=' });
            s.push(if ch.len() > 2 { tbl[n as usize & 63] as char } else { '=' });
        }
        s
    };
    let oti = flute::core::Oti::new_no_code(4, 2);
    let big = flute::core::Oti::new_no_code(4096, 8);
    for line in input.lines() {
        if line.trim().is_empty() {
            continue;
        }
        let b: serde_json::Value = serde_json::from_str(line).expect("json");
        let jail = tempfile::tempdir().expect("tempdir");
        let root = jail.path().join("r0").join("r1").join("root");
        let dest = root.join("a").join("b").join("dest");
        std::fs::create_dir_all(&dest).unwrap();
        for (i, d) in [jail.path().to_path_buf(), jail.path().join("r0"), jail.path().join("r0").join("r1"), root.clone(), root.join("a"), root.join("a").join("b")].iter().enumerate() {
            // the canaries carry the name that the grammar uses for plain segments, so that an escaping
            // location of the grammar can hit an existing file outside the destination directory
            std::fs::write(d.join("n1"), format!("canary{}", i)).unwrap();
        }
        std::fs::create_dir_all(root.join("outside")).unwrap();
        std::fs::write(root.join("outside").join("victim"), "victim").unwrap();
        let rootstr = root.to_string_lossy().to_string();
        let loc = js(&b, "loc").replace("@ROOT@", rootstr.trim_start_matches('/'));
        let outcome = jopt_s(&b, "outcome", "complete").to_string();
        let mut before = std::collections::BTreeMap::new();
        walk(jail.path(), jail.path(), &mut before);
        let xml = format!("<?xml version=\"1.0\" encoding=\"UTF-8\"?><FDT-Instance xmlns=\"urn:IETF:metadata:2005:FLUTE:FDT\" Expires=\"4200000000\" FEC-OTI-FEC-Encoding-ID=\"0\" FEC-OTI-Maximum-Source-Block-Length=\"2\" FEC-OTI-Encoding-Symbol-Length=\"4\"><File Content-Location=\"{}\" TOI=\"1\" Content-Length=\"8\" Transfer-Length=\"8\" Content-MD5=\"{}\"/></FDT-Instance>",
                          xml_escape(&loc), if outcome == "error" { "AAAAAAAAAAAAAAAAAAAAAA==" } else { &md5_ok });
        let mk = |toi: u128, fdt_id: Option<u32>, sbn: u32, esi: u32, bflag: bool, tl: u64, payload: &[u8], o: &flute::core::Oti| {
            let f = verif::PktFields { cci: 0, tsi: 1, toi, fdt_id, sbn, esi, source_block_length: 2, cenc: flute::core::lct::Cenc::Null,
                inband_cenc: false, close_object: bflag, sender_current_time: false, transfer_length: tl, payload: payload.to_vec() };
            verif::build_alc_pkt(o, &f, flute::sender::Profile::RFC6726, base_time())
        };
        let mut pkts = vec![mk(0, Some(1), 0, 0, false, xml.len() as u64, xml.as_bytes(), &big)];
        match outcome.as_str() {
            "interrupted" => pkts.push(mk(1, None, 0, 0, true, 8, &content[0..4], &oti)),
            _ => {
                pkts.push(mk(1, None, 0, 0, false, 8, &content[0..4], &oti));
                pkts.push(mk(1, None, 0, 1, true, 8, &content[4..8], &oti));
            }
        }
        let res = catch(|| {
            let builder = Rc::new(ObjectWriterFSBuilder::new(&dest, true).expect("builder"));
            let mut rx = MultiReceiver::new(builder, None, false);
            let ep = flute::core::UDPEndpoint::new(None, "224.0.0.1".to_string(), 3400);
            let mut rs = Vec::new();
            for p in &pkts {
                rs.push(match rx.push(&ep, p, base_time()) { Ok(()) => "ok", Err(_) => "err" });
            }
            let ne = rx.nb_objects_error();
            drop(rx);
            (rs, ne)
        });
        let mut after = std::collections::BTreeMap::new();
        walk(jail.path(), jail.path(), &mut after);
        let mut touched: Vec<Vec<String>> = Vec::new();
        let keys: std::collections::BTreeSet<&String> = before.keys().chain(after.keys()).collect();
        for k in keys {
            if before.get(k) != after.get(k) {
                touched.push(k.trim_end_matches('/').split('/').map(|s| s.to_string()).collect());
            }
        }
        let destc: Vec<String> = dest.strip_prefix(jail.path()).unwrap().to_string_lossy().split('/').map(|s| s.to_string()).collect();
        let files: Vec<serde_json::Value> = after.iter().filter(|(k, v)| !before.contains_key(*k) && *v != "dir")
            .map(|(k, v)| json!({"p": k.split('/').collect::<Vec<_>>(), "dg": v})).collect();
        let (rs, ne, pan) = match res {
            Ok((rs, ne)) => (json!(rs), ne as i64, "".to_string()),
            Err(m) => (json!([]), -1, m),
        };
        out.emit(&json!({"ev":"fs","beh":b.get("beh").cloned().unwrap_or(json!(-1)),"pfx":b.get("pfx").cloned().unwrap_or(json!(0)),
            "segs":b.get("segs").cloned().unwrap_or(json!([])),"outcome":outcome,"touched":touched,"dest":destc,"newfiles":files,
            "res":rs,"ne":ne,"panic":pan,"dg":dg_full(&content)}));
    }
    out.flush();
}

// --------------------------------------------------------------------------------------------
// C06: wire format

fn bytes_of(v: &serde_json::Value) -> Vec<u8> {
    v.as_array().map(|a| a.iter().map(|x| x.as_u64().unwrap() as u8).collect()).unwrap_or_default()
}
fn u128_of(v: &serde_json::Value) -> u128 {
    let mut r: u128 = 0;
    for b in bytes_of(v) {
        r = (r << 8) | b as u128;
    }
    r
}
fn be_bytes(v: u128, n: usize) -> Vec<u64> {
    (0..n).rev().map(|i| ((v >> (8 * i)) & 0xFF) as u64).collect()
}

fn oti_from(g: &serde_json::Value) -> Result<Oti, String> {
    // {scheme, E, B, par, fti, inst, m, g, Z, N, Al}
    let scheme = ji(g, "scheme");
    let e = ju(g, "E") as u16;
    let b = ju(g, "B") as u32;
    let par = jopt_i(g, "par", 0) as u32;
    let mut oti = match scheme {
        0 => Oti::new_no_code(e, 1),
        5 => Oti::new_reed_solomon_rs28(e, 1, 0).map_err(|e| format!("{:?}", e))?,
        129 => Oti::new_reed_solomon_rs28_under_specified(e, 1, 0).map_err(|e| format!("{:?}", e))?,
        6 => Oti::new_raptorq(e, 1, 0, jopt_i(g, "N", 1) as u16, jopt_i(g, "Al", 1) as u8).map_err(|e| format!("{:?}", e))?,
        1 => Oti::new_raptor(e, 1, 0, jopt_i(g, "N", 1) as u8, jopt_i(g, "Al", 1) as u8).map_err(|e| format!("{:?}", e))?,
        2 => verif::new_rs2m_oti(e, b, par, jopt_i(g, "m", 8) as u8, jopt_i(g, "g", 1) as u8),
        _ => return Err("scheme".into()),
    };
    oti.maximum_source_block_length = b;
    oti.max_number_of_parity_symbols = par;
    oti.fec_instance_id = jopt_i(g, "inst", 0) as u16;
    oti.inband_fti = jopt_b(g, "fti", true);
    if scheme == 6 || scheme == 1 {
        verif::set_source_blocks_length(&mut oti, jopt_i(g, "Z", 1) as u32);
    }
    Ok(oti)
}

fn rfc_json(bytes: &[u8], m: u32) -> serde_json::Value {
    match crate::rfcdec::decode(bytes, m) {
        Err(e) => json!({"ok": false, "err": e}),
        Ok(d) => {
            let fti = match &d.fti {
                None => json!({"present": false}),
                Some(f) => json!({"present": true, "L": be_bytes(f.transfer_length as u128, 6), "E": f.e, "B": be_bytes(f.b as u128, 4), "maxn": f.max_n,
                                  "inst": f.instance_id, "m": f.m, "g": f.g, "Z": f.z, "N": f.n, "Al": f.al}),
            };
            let sct = match &d.ext_time {
                Some(s) if s.sct_hi.is_some() => json!({"present": true, "hi": be_bytes(s.sct_hi.unwrap() as u128, 4), "lo": be_bytes(s.sct_lo.unwrap_or(0) as u128, 4), "has_lo": s.sct_lo.is_some()}),
                _ => json!({"present": false}),
            };
            json!({"ok": true, "c": d.c, "s": d.s, "o": d.o, "h": d.h, "a": d.close_session, "b": d.close_object, "cp": d.cp,
                   "cci": be_bytes(d.cci, 16), "tsi": be_bytes(d.tsi as u128, 8), "toi": be_bytes(d.toi, 16), "hdr": d.hdr_len,
                   "fdt": d.ext_fdt.map(|(v, id)| json!([v, id])).unwrap_or(json!([])), "cenc": d.ext_cenc.map(|c| c as i64).unwrap_or(-1),
                   "sct": sct, "fti": fti, "sbn": be_bytes(d.sbn as u128, 4), "esi": d.esi, "sbl": d.sbl.map(|x| x as i64).unwrap_or(-1),
                   "poff": d.payload_off, "nunknown": d.unknown_exts.len()})
        }
    }
}

fn flute_json(bytes: &[u8], default_oti: Option<&Oti>) -> serde_json::Value {
    let r = catch(|| -> serde_json::Value {
        let pkt = match flute::core::alc::parse_alc_pkt(bytes) {
            Ok(p) => p,
            Err(e) => return json!({"ok": false, "err": format!("{:?}", e)}),
        };
        let fti = match (&pkt.oti, pkt.transfer_length) {
            (Some(o), Some(l)) => {
                let (kind, z, n, al, m, g) = verif::scheme_specific_fields(o);
                json!({"present": true, "L": be_bytes(l as u128, 6), "E": o.encoding_symbol_length, "B": be_bytes(o.maximum_source_block_length as u128, 4),
                       "par": o.max_number_of_parity_symbols, "inst": o.fec_instance_id, "kind": kind, "Z": z, "N": n, "Al": al, "m": m, "g": g,
                       "scheme": o.fec_encoding_id as u8})
            }
            _ => json!({"present": false}),
        };
        let sct = match flute::core::alc::get_sender_current_time(&pkt) {
            Ok(Some(t)) => match t.duration_since(std::time::UNIX_EPOCH) {
                Ok(d) => json!({"present": true, "secs": be_bytes(d.as_secs() as u128, 4), "us": d.subsec_micros()}),
                Err(_) => json!({"present": true, "secs": [], "us": -1}),
            },
            Ok(None) => json!({"present": false}),
            Err(e) => json!({"present": false, "err": format!("{:?}", e)}),
        };
        // the payload id format only depends on the FEC Encoding ID, which FLUTE carries as the codepoint
        let oti_for_pid = pkt.oti.clone().or(default_oti.cloned()).or_else(|| {
            oti_from(&json!({"scheme": pkt.lct.cp, "E": 4, "B": 4, "Al": 4})).ok()
        });
        let pid = match &oti_for_pid {
            Some(o) => match flute::core::alc::parse_payload_id(&pkt, o) {
                Ok(p) => json!({"ok": true, "sbn": be_bytes(p.sbn as u128, 4), "esi": p.esi, "sbl": p.source_block_length.map(|x| x as i64).unwrap_or(-1)}),
                Err(e) => json!({"ok": false, "err": format!("{:?}", e)}),
            },
            None => json!({"ok": false, "err": "no oti"}),
        };
        json!({"ok": true, "cci": be_bytes(pkt.lct.cci, 16), "tsi": be_bytes(pkt.lct.tsi as u128, 8), "toi": be_bytes(pkt.lct.toi, 16),
               "cp": pkt.lct.cp, "a": pkt.lct.close_session, "b": pkt.lct.close_object, "hdr": pkt.lct.len,
               "fdt": pkt.fdt_info.as_ref().map(|f| json!([f.version, f.fdt_instance_id])).unwrap_or(json!([])),
               "cenc": pkt.cenc.map(|c| c as u8 as i64).unwrap_or(-1), "fti": fti, "sct": sct, "pid": pid,
               "poff": pkt.data_payload_offset})
    });
    match r {
        Ok(v) => v,
        Err(m) => json!({"ok": false, "panic": m}),
    }
}

/// flute builds the packets described by the generator (direction i)
pub fn wire_enc(args: &Args) {
    let input = std::fs::read_to_string(args.str("in", "-")).expect("input");
    let mut out = Out::new(args.get("out"));
    for line in input.lines() {
        if line.trim().is_empty() { continue; }
        let g: serde_json::Value = serde_json::from_str(line).expect("json");
        let oti = match oti_from(jget(&g, "oti")) {
            Ok(o) => o,
            Err(m) => { out.emit(&json!({"ev":"enc","g":g,"skip":m})); continue; }
        };
        let toi = u128_of(jget(&g, "toi"));
        let fdt = g.get("fdt").and_then(|f| f.as_array()).filter(|a| a.len() == 2).map(|a| (a[0].as_u64().unwrap() as u8, a[1].as_u64().unwrap() as u32));
        let sct = g.get("sct").filter(|s| s.is_object() && s.get("secs").is_some());
        let now = match sct {
            Some(s) => std::time::UNIX_EPOCH + std::time::Duration::new(u128_of(jget(s, "secs")) as u64, ju(s, "us") as u32 * 1000),
            None => base_time(),
        };
        let f = verif::PktFields {
            cci: u128_of(jget(&g, "cci")), tsi: u128_of(jget(&g, "tsi")) as u64, toi,
            fdt_id: fdt.map(|x| x.1), sbn: u128_of(jget(&g, "sbn")) as u32, esi: ju(&g, "esi") as u32,
            source_block_length: jopt_i(&g, "sbl", 0) as u32, cenc: crate::catalog::cenc_of(jopt_i(&g, "cenc", 0)),
            inband_cenc: jopt_b(&g, "icenc", false), close_object: jb(&g, "b"), sender_current_time: sct.is_some(),
            transfer_length: u128_of(jget(&g, "L")) as u64, payload: vec![0x5A; ju(&g, "paylen") as usize],
        };
        let profile = if fdt.map(|x| x.0) == Some(1) { flute::sender::Profile::RFC3926 } else { flute::sender::Profile::RFC6726 };
        let m = jopt_i(jget(&g, "oti"), "m", 8) as u32;
        match catch(|| verif::build_alc_pkt(&oti, &f, profile, now)) {
            Ok(bytes) => {
                let fl = flute_json(&bytes, Some(&oti));
                out.emit(&json!({"ev":"enc","g":g,"bytes":bytes,"flute":fl,"rfc":rfc_json(&bytes, m)}));
            }
            Err(msg) => out.emit(&json!({"ev":"enc","g":g,"panic":msg})),
        }
    }
    out.flush();
}

/// flute parses the packets built by the specification (direction ii)
pub fn wire_dec(args: &Args) {
    let input = std::fs::read_to_string(args.str("in", "-")).expect("input");
    let mut out = Out::new(args.get("out"));
    for line in input.lines() {
        if line.trim().is_empty() { continue; }
        let g: serde_json::Value = serde_json::from_str(line).expect("json");
        let bytes = bytes_of(jget(&g, "bytes"));
        let m = jopt_i(&g, "m", 8) as u32;
        // OTI needed to interpret the payload id when the packet has no EXT_FTI
        let d = g.get("oti").and_then(|o| oti_from(o).ok());
        out.emit(&json!({"ev":"dec","id":g.get("id").cloned().unwrap_or(json!(0)),"m":m,"bytes":bytes,"flute":flute_json(&bytes, d.as_ref()),"rfc":rfc_json(&bytes, m)}));
    }
    out.flush();
}

/// every packet of real Sender runs: bytes with what flute and rfcdec decode (direction iii)
pub fn wire_sender(args: &Args) {
    let input = std::fs::read_to_string(args.str("in", "-")).expect("input");
    let mut out = Out::new(args.get("out"));
    for (i, line) in input.lines().enumerate() {
        if line.trim().is_empty() { continue; }
        let spec: serde_json::Value = serde_json::from_str(line).expect("json");
        let s = crate::recv_drv::build_session(i, &spec);
        for (t, bytes, _) in &s.pkts {
            out.emit(&json!({"ev":"dec","id":i,"m":8,"t":t,"bytes":bytes,"flute":flute_json(bytes, None),"rfc":rfc_json(bytes, 8)}));
        }
    }
    out.flush();
}
