//! replay-sender: drives a real flute `Sender` with a behaviour (configuration, object
//! catalogue, operation sequence with virtual time) and records what really happened.
use crate::catalog::*;
use crate::rfcdec;
use crate::util::*;
use flute::core::UDPEndpoint;
use flute::sender::{Event, Sender, Subscriber, Toi};
use serde_json::{json, Value};
use std::collections::HashMap;
use std::io::Read;
use std::sync::{Arc, Mutex};

struct Sub {
    events: Mutex<Vec<(String, u128)>>,
}

impl Subscriber for Sub {
    fn on_sender_event(&self, evt: &Event, _now: std::time::SystemTime) {
        let mut e = self.events.lock().unwrap();
        match evt {
            Event::StartTransfer(f) => e.push(("start".to_string(), f.toi)),
            Event::StopTransfer(f) => e.push(("stop".to_string(), f.toi)),
        }
    }
}

pub fn inflate(cenc: i64, data: &[u8]) -> Option<Vec<u8>> {
    let mut out = Vec::new();
    let r = match cenc {
        0 => {
            out.extend_from_slice(data);
            Ok(0)
        }
        1 => flate2::read::ZlibDecoder::new(data).read_to_end(&mut out),
        2 => flate2::read::DeflateDecoder::new(data).read_to_end(&mut out),
        3 => flate2::read::GzDecoder::new(data).read_to_end(&mut out),
        _ => return None,
    };
    r.ok().map(|_| out)
}

/// state needed to interpret packets of one sender
pub struct PktCtx {
    pub toi2o: HashMap<u128, usize>,
    pub objs: Vec<BuiltObject>, // index o-1
    pub default_e: u64,
    pub default_b: u64,
    pub base_us: i128,
    pub tick_us: u64,
    /// source symbols of the current transfer per object: (sbn, esi) -> payload
    pub cur: HashMap<usize, HashMap<(u32, u32), Vec<u8>>>,
    /// FDT reassembly: id -> (transfer length, cenc, symbols)
    pub fdt: HashMap<u32, (u64, i64, HashMap<(u32, u32), Vec<u8>>)>,
    pub m_rs2m: u32,
}

impl PktCtx {
    /// reassemble the transfer-encoded object from source symbols placed at their RFC offsets
    fn reassemble(l: u64, e: u64, b: u64, syms: &HashMap<(u32, u32), Vec<u8>>) -> Option<Vec<u8>> {
        let (_, _, _, n) = refpart(l as u128, e as u128, b as u128);
        let mut out = vec![0u8; l as usize];
        for sbn in 0..n {
            let (k, first) = ref_block(l as u128, e as u128, b as u128, sbn);
            for esi in 0..k {
                let p = syms.get(&(sbn as u32, esi as u32))?;
                let off = ((first + esi) * e as u128) as usize;
                let want = (e as usize).min(l as usize - off);
                if p.len() < want {
                    // short symbol in the middle: leave the gap (zeros), the digest will differ
                    out[off..off + p.len()].copy_from_slice(p);
                } else {
                    out[off..off + want].copy_from_slice(&p[..want]);
                }
            }
        }
        Some(out)
    }

    /// Decode a packet returned by the sender into its abstract record.  Returns (record, maybe a
    /// completed FDT instance (id, xml bytes or None when it cannot be inflated)).
    pub fn abstract_pkt(&mut self, bytes: &[u8]) -> (Value, Option<(u32, Option<Vec<u8>>)>) {
        let d = match rfcdec::decode(bytes, self.m_rs2m) {
            Ok(d) => d,
            Err(m) => return (json!({"k":"bad","m":m,"len":bytes.len()}), None),
        };
        let payload = &bytes[d.payload_off..];
        let fti = match &d.fti {
            Some(f) => json!({"L": if f.transfer_length < (1u64<<31) { f.transfer_length as i64 } else { -1 },
                              "Lx": format!("{:x}", f.transfer_length), "E": f.e, "B": f.b, "maxn": f.max_n,
                              "Z": f.z, "N": f.n, "Al": f.al, "inst": f.instance_id}),
            None => json!({"k":"none"}),
        };
        let sct = match &d.ext_time {
            Some(s) => match (s.sct_hi, s.sct_lo) {
                (Some(hi), lo) => {
                    let us = rfcdec::ntp_to_unix_us(hi, lo.unwrap_or(0)).unwrap() - self.base_us;
                    json!({"k":"sct","us": if us.abs() < (1i128 << 31) { us as i64 } else { -1 },
                           "ms": if (us / 1000).abs() < (1i128 << 31) { (us / 1000) as i64 } else { -1 }})
                }
                _ => json!({"k":"nosct"}),
            },
            None => json!({"k":"none"}),
        };
        let common = json!({
            "tsi": d.tsi as i64, "cci": rfcdec::small(d.cci), "cp": d.cp, "sbn": d.sbn, "esi": d.esi,
            "B": d.close_object, "A": d.close_session, "fti": fti, "sct": sct,
            "cenc": d.ext_cenc.map(|c| c as i64).unwrap_or(-1), "len": payload.len(), "got": dg(payload),
            "sbl": d.sbl.map(|x| x as i64).unwrap_or(-1), "nx": d.unknown_exts.len(),
            "toix": format!("{:x}", d.toi),
        });
        let mut rec = common.as_object().unwrap().clone();
        let mut fdt_done = None;
        if d.toi == 0 {
            rec.insert("k".into(), json!("fdt"));
            rec.insert("o".into(), json!(0));
            match d.ext_fdt {
                Some((v, id)) => {
                    rec.insert("id".into(), json!(id));
                    rec.insert("ver".into(), json!(v));
                    // reassembly
                    if let Some(f) = &d.fti {
                        let ent = self.fdt.entry(id).or_insert((f.transfer_length, d.ext_cenc.map(|c| c as i64).unwrap_or(0), HashMap::new()));
                        let (k, _) = ref_block(f.transfer_length as u128, self.default_e as u128, self.default_b as u128, d.sbn as u128);
                        if (d.esi as u128) < k {
                            ent.2.insert((d.sbn, d.esi), payload.to_vec());
                        }
                        let t = (f.transfer_length as u128 + self.default_e as u128 - 1) / self.default_e as u128;
                        if ent.2.len() as u128 == t {
                            // all source symbols of this instance emitted (again)
                            let raw = Self::reassemble(ent.0, self.default_e, self.default_b, &ent.2);
                            let xml = raw.and_then(|r| inflate(ent.1, &r));
                            fdt_done = Some((id, xml));
                            self.fdt.remove(&id);
                        }
                    }
                }
                None => {
                    rec.insert("id".into(), json!(-1));
                    rec.insert("ver".into(), json!(-1));
                }
            }
            return (Value::Object(rec), fdt_done);
        }
        rec.insert("k".into(), json!("obj"));
        let o = self.toi2o.get(&d.toi).copied().unwrap_or(0);
        rec.insert("o".into(), json!(o));
        rec.insert("toi".into(), json!(rfcdec::small(d.toi)));
        if o > 0 {
            let ob = &self.objs[o - 1];
            let l = ob.transfer_length as u128;
            let e = ob.oti.encoding_symbol_length as u128;
            let b = ob.oti.maximum_source_block_length as u128;
            let (k, first) = ref_block(l, e, b, d.sbn as u128);
            if (d.esi as u128) < k {
                let off = ((first + d.esi as u128) * e) as usize;
                let end = (off + e as usize).min(ob.transfer.len());
                if off <= ob.transfer.len() && (ob.transfer.len() as u128) == l {
                    let slice = &ob.transfer[off..end];
                    let mut padded = slice.to_vec();
                    padded.resize(e as usize, 0);
                    rec.insert("off".into(), json!(off));
                    rec.insert("exp".into(), json!(dg(slice)));
                    rec.insert("expp".into(), json!(dg(&padded)));
                } else {
                    rec.insert("off".into(), json!(-1));
                    rec.insert("exp".into(), json!("?"));
                    rec.insert("expp".into(), json!("?"));
                }
                self.cur.entry(o).or_default().insert((d.sbn, d.esi), payload.to_vec());
            } else {
                rec.insert("off".into(), json!(-1));
                rec.insert("exp".into(), json!("-"));
                rec.insert("expp".into(), json!("-"));
            }
        }
        (Value::Object(rec), None)
    }

    /// digest of the content rebuilt from the source symbols of the transfer that just stopped
    pub fn transfer_digest(&mut self, o: usize) -> String {
        let syms = self.cur.remove(&o).unwrap_or_default();
        let ob = &self.objs[o - 1];
        if ob.transfer.len() as u64 != ob.transfer_length {
            return "?".into();
        }
        let raw = Self::reassemble(ob.transfer_length, ob.oti.encoding_symbol_length as u64,
                                   ob.oti.maximum_source_block_length as u64, &syms);
        match raw {
            None => "-".into(),
            Some(r) => match inflate(ji(&ob.info, "cenc"), &r) {
                Some(c) => dg_full(&c),
                None => "inflate-error".into(),
            },
        }
    }
}

fn projection(sender: &mut Sender, ctx: &PktCtx, added: &Vec<(usize, u128)>) -> Value {
    let mut live = Vec::new();
    let mut xf = Vec::new();
    for (o, toi) in added {
        if sender.is_added(*toi) {
            live.push(*o);
        }
        match sender.nb_transfers(*toi) {
            Some(n) => xf.push(json!([o, n])),
            None => {}
        }
    }
    let snap = sender.verif_snapshot();
    let map = |t: &u128| ctx.toi2o.get(t).copied().unwrap_or(0);
    json!({
        "n": sender.nb_objects(), "live": live, "xf": xf,
        "fdtid": snap.fdtid, "fdtq": snap.fdt_queue,
        "fcur": snap.fdt_current.map(|(id, tr)| json!([id, tr])).unwrap_or(json!([])),
        "fq": snap.files_queue.iter().map(map).collect::<Vec<_>>(),
        "slots": snap.sessions.iter().map(|(p, idx, s)| json!([p, idx, s.iter().map(|t| t.as_ref().map(map).unwrap_or(0)).collect::<Vec<_>>()])).collect::<Vec<_>>(),
    })
}

pub fn run_behaviour(beh: &Value, out: &mut Out) {
    let mut sink = None;
    run_behaviour_sink(beh, out, &mut sink)
}

/// like run_behaviour; when `sink` is Some, every packet returned by the sender is appended to it as
/// (virtual time, bytes, abstract record) and the object catalogue is returned through `cat`
pub type PacketSink = Option<Vec<(i64, Vec<u8>, Value)>>;
pub fn run_behaviour_sink(beh: &Value, out: &mut Out, sink: &mut PacketSink) {
    let cfg = jget(beh, "cfg");
    let tick_us = jopt_i(cfg, "tick_us", 1000) as u64;
    let default_oti = match make_oti(cfg) {
        Ok(o) => o,
        Err(m) => {
            out.emit(&json!({"ev":"reset","beh":jget(beh,"beh"),"skip":m}));
            return;
        }
    };
    let config = make_config(cfg);
    let objs_desc = beh.get("objs").and_then(|o| o.as_array()).cloned().unwrap_or_default();
    let mut objs = Vec::new();
    let mut infos = Vec::new();
    for (i, o) in objs_desc.iter().enumerate() {
        match build_object(i + 1, o, &default_oti, tick_us) {
            Ok(b) => {
                infos.push(b.info.clone());
                objs.push(b);
            }
            Err(m) => {
                out.emit(&json!({"ev":"reset","beh":jget(beh,"beh"),"skip":format!("object {}: {}", i + 1, m)}));
                return;
            }
        }
    }
    let mut cfg_out = cfg.clone();
    {
        let c = cfg_out.as_object_mut().unwrap();
        c.entry("mode").or_insert(json!("full"));
        c.entry("fdt_dur").or_insert(json!(3600));
        c.entry("fdt_start").or_insert(json!(1));
        c.entry("interleave").or_insert(json!(4));
        c.entry("queues").or_insert(json!([[0, 3]]));
        c.entry("par").or_insert(json!(0));
        c.entry("fti").or_insert(json!(true));
        c.entry("sct").or_insert(json!(true));
        c.entry("fdt_cenc").or_insert(json!(0));
        c.entry("groups").or_insert(json!([]));
        c.entry("toi_w").or_insert(json!(112));
        c.entry("tick_us").or_insert(json!(tick_us));
        c.entry("fdt_car").or_insert(json!(["delay", 1_000_000 / tick_us]));
        c.entry("profile").or_insert(json!(2));
    }
    out.emit(&json!({"ev":"reset","beh":jget(beh,"beh"),"cfg":cfg_out,"objs":infos}));

    let endpoint = UDPEndpoint::new(None, "224.0.0.1".to_string(), 3400);
    let tsi = jopt_i(cfg, "tsi", 1) as u64;
    let mut sender = Sender::new(endpoint, tsi, &default_oti, &config);
    let sub = Arc::new(Sub { events: Mutex::new(Vec::new()) });
    sender.subscribe(sub.clone());
    let mut ctx = PktCtx {
        toi2o: HashMap::new(),
        objs,
        default_e: default_oti.encoding_symbol_length as u64,
        default_b: default_oti.maximum_source_block_length as u64,
        base_us: BASE_UNIX as i128 * 1_000_000,
        tick_us,
        cur: HashMap::new(),
        fdt: HashMap::new(),
        m_rs2m: 8,
    };
    let mut added: Vec<(usize, u128)> = Vec::new();
    let mut handles: Vec<Option<Box<Toi>>> = Vec::new();
    let mut t: i64 = jopt_i(beh, "t0", 0);
    let ops = jget(beh, "ops").as_array().unwrap().clone();
    let drain_cap = jopt_i(beh, "drain_cap", 2000);

    // one read call: returns false when the sender returned None or panicked
    let mut do_read = |sender: &mut Sender, ctx: &mut PktCtx, added: &Vec<(usize, u128)>, t: i64, out: &mut Out, sink: &mut PacketSink| -> i8 {
        let now = vtime(t, tick_us);
        sub.events.lock().unwrap().clear();
        let r = catch(|| sender.read(now));
        let subs: Vec<(String, u128)> = sub.events.lock().unwrap().drain(..).collect();
        match r {
            Err(m) => {
                out.emit(&json!({"ev":"read","t":t,"res":"panic","m":m,"sub":[],"p":{"k":"none"}}));
                -1
            }
            Ok(pkt) => {
                // subscriber events of this call happened before the packet was produced
                let mut sub_json = Vec::new();
                for (kind, toi) in subs {
                    let o = ctx.toi2o.get(&toi).copied().unwrap_or(0);
                    if kind == "stop" && o > 0 {
                        let xd = ctx.transfer_digest(o);
                        sub_json.push(json!([kind, o, xd]));
                    } else {
                        if kind == "start" && o > 0 {
                            ctx.cur.remove(&o);
                        }
                        sub_json.push(json!([kind, o, "-"]));
                    }
                }
                let (p, fdt_done) = match &pkt {
                    Some(bytes) => ctx.abstract_pkt(bytes),
                    None => (json!({"k":"none"}), None),
                };
                if let (Some(sk), Some(bytes)) = (sink.as_mut(), &pkt) {
                    sk.push((t, bytes.clone(), p.clone()));
                }
                let st = projection(sender, ctx, added);
                out.emit(&json!({"ev":"read","t":t,"res":"ok","sub":sub_json,"p":p,"st":st}));
                if let Some((id, xml)) = fdt_done {
                    match xml {
                        Some(x) => out.emit(&json!({"ev":"fdtxml","t":t,"id":id,"xml":String::from_utf8_lossy(&x)})),
                        None => out.emit(&json!({"ev":"fdtxml","t":t,"id":id,"xml":"","undecodable":true})),
                    }
                }
                if pkt.is_some() { 1 } else { 0 }
            }
        }
    };

    let lines_before = out.lines;
    let mut dead = false;
    for op in ops {
        if dead {
            break;
        }
        let a = op.as_array().unwrap();
        let name = a[0].as_str().unwrap();
        let now = vtime(t, tick_us);
        let _ = lines_before;
        match name {
            "adv" => {
                t += a[1].as_i64().unwrap();
            }
            "add" | "addtoi" => {
                let o = a[1].as_u64().unwrap() as usize;
                if o == 0 || o > ctx.objs.len() || ctx.objs[o - 1].desc.is_none() {
                    continue;
                }
                let mut desc = ctx.objs[o - 1].desc.take().unwrap();
                let mut used_h: i64 = -1;
                if name == "addtoi" {
                    let h = a[2].as_u64().unwrap() as usize;
                    if h < handles.len() {
                        if let Some(toi) = handles[h].take() {
                            desc.set_toi(toi);
                            used_h = h as i64;
                        }
                    }
                }
                let prio = ctx.objs[o - 1].priority;
                let tl_bytes: Vec<u64> = (0..8).rev().map(|k| (desc.transfer_length >> (8 * k)) & 0xFF).collect();
                let r = catch(|| sender.add_object(prio, desc));
                let ev = match r {
                    Err(m) => { dead = true; json!({"ev":"add","t":t,"o":o,"res":"panic","m":m}) }
                    Ok(Err(e)) => json!({"ev":"add","t":t,"o":o,"res":"err","m":format!("{:?}", e),"toi":-1,"toix":""}),
                    Ok(Ok(toi)) => {
                        ctx.toi2o.insert(toi, o);
                        added.push((o, toi));
                        json!({"ev":"add","t":t,"o":o,"res":"ok","toi":rfcdec::small(toi),"toix":format!("{:x}", toi)})
                    }
                };
                let mut ev = ev;
                ev["h"] = json!(used_h);
                ev["Ld"] = json!(tl_bytes);
                if !dead {
                    ev.as_object_mut().unwrap().insert("st".into(), projection(&mut sender, &ctx, &added));
                }
                out.emit(&ev);
            }
            "publish" => {
                let r = catch(|| sender.publish(now));
                let res = match r { Err(_) => "panic", Ok(Err(_)) => "err", Ok(Ok(())) => "ok" };
                if res == "panic" {
                    dead = true;
                    out.emit(&json!({"ev":"publish","t":t,"res":res}));
                } else {
                    out.emit(&json!({"ev":"publish","t":t,"res":res,"st":projection(&mut sender, &ctx, &added)}));
                }
            }
            "remove" => {
                let o = a[1].as_u64().unwrap() as usize;
                let toi = added.iter().find(|(x, _)| *x == o).map(|(_, t)| *t);
                match toi {
                    None => {}
                    Some(toi) => {
                        let r = catch(|| sender.remove_object(toi));
                        let ev = match r {
                            Err(m) => { dead = true; json!({"ev":"remove","t":t,"o":o,"res":"panic","m":m}) }
                            Ok(b) => json!({"ev":"remove","t":t,"o":o,"res":if b {"true"} else {"false"},"st":projection(&mut sender, &ctx, &added)}),
                        };
                        out.emit(&ev);
                    }
                }
            }
            "trigger" => {
                let o = a[1].as_u64().unwrap() as usize;
                let at = a[2].as_i64().unwrap();
                let toi = added.iter().find(|(x, _)| *x == o).map(|(_, t)| *t);
                if let Some(toi) = toi {
                    let ts = if at >= 0 { Some(vtime(at, tick_us)) } else { None };
                    let r = catch(|| sender.trigger_transfer_at(toi, ts));
                    let ev = match r {
                        Err(m) => { dead = true; json!({"ev":"trigger","t":t,"o":o,"at":at,"res":"panic","m":m}) }
                        Ok(b) => json!({"ev":"trigger","t":t,"o":o,"at":at,"res":if b {"true"} else {"false"},"st":projection(&mut sender, &ctx, &added)}),
                    };
                    out.emit(&ev);
                }
            }
            "complete" => {
                sender.set_complete();
                out.emit(&json!({"ev":"complete","t":t}));
            }
            "read" => {
                if do_read(&mut sender, &mut ctx, &added, t, out, sink) < 0 {
                    dead = true;
                }
            }
            "readn" => {
                let n = a[1].as_i64().unwrap();
                for _ in 0..n {
                    let r = do_read(&mut sender, &mut ctx, &added, t, out, sink);
                    if r < 0 {
                        dead = true;
                    }
                    if r <= 0 {
                        break;
                    }
                }
            }
            "drain" => {
                let mut n = 0;
                let mut capped = true;
                while n < drain_cap {
                    n += 1;
                    let r = do_read(&mut sender, &mut ctx, &added, t, out, sink);
                    if r < 0 {
                        dead = true;
                    }
                    if r <= 0 {
                        capped = false;
                        break;
                    }
                }
                if capped {
                    // reads at one instant do not terminate: the behaviour ends here (the monitor reports it; going on would
                    // only produce more of the same endless packets)
                    out.emit(&json!({"ev":"capped","t":t,"n":n}));
                    dead = true;
                }
            }
            "close" => {
                let r = catch(|| sender.read_close_session(now));
                match r {
                    Err(m) => out.emit(&json!({"ev":"close","t":t,"res":"panic","m":m})),
                    Ok(bytes) => {
                        let (p, _) = ctx.abstract_pkt(&bytes);
                        if let Some(sk) = sink.as_mut() {
                            sk.push((t, bytes.clone(), p.clone()));
                        }
                        out.emit(&json!({"ev":"close","t":t,"res":"ok","p":p}));
                    }
                }
            }
            "xml" => {
                let r = catch(|| sender.fdt_xml_data(now));
                match r {
                    Ok(Ok(x)) => out.emit(&json!({"ev":"xmlnow","t":t,"xml":String::from_utf8_lossy(&x)})),
                    _ => out.emit(&json!({"ev":"xmlnow","t":t,"xml":"","undecodable":true})),
                }
            }
            "alloc" => {
                let r = catch(|| sender.allocate_toi());
                match r {
                    Err(m) => out.emit(&json!({"ev":"alloc","t":t,"res":"panic","m":m})),
                    Ok(toi) => {
                        let v = toi.get();
                        handles.push(Some(toi));
                        out.emit(&json!({"ev":"alloc","t":t,"res":"ok","h":handles.len() - 1,"toi":rfcdec::small(v),"toix":format!("{:x}", v),"lim":rfcdec::limbs(v)}));
                    }
                }
            }
            "cycle" => {
                // n times: allocate a TOI and drop it at once
                let n = a[1].as_u64().unwrap();
                for _ in 0..n {
                    let r = catch(|| sender.allocate_toi());
                    match r {
                        Err(m) => {
                            out.emit(&json!({"ev":"ad","t":t,"res":"panic","m":m}));
                            dead = true;
                            break;
                        }
                        Ok(toi) => {
                            let v = toi.get();
                            drop(toi);
                            out.emit(&json!({"ev":"ad","t":t,"res":"ok","toix":format!("{:x}", v)}));
                        }
                    }
                }
            }
            "droptoi" | "droptoi_t" => {
                let h = a[1].as_u64().unwrap() as usize;
                if h < handles.len() && handles[h].is_some() {
                    let toi = handles[h].take().unwrap();
                    let v = toi.get();
                    let r = if name == "droptoi_t" {
                        // the handle is moved to and dropped on another thread
                        std::thread::spawn(move || drop(toi)).join().map_err(|_| "panic".to_string())
                    } else {
                        catch(move || drop(toi))
                    };
                    out.emit(&json!({"ev":"droptoi","t":t,"h":h,"res":if r.is_ok() {"ok"} else {"panic"},"toi":rfcdec::small(v),"toix":format!("{:x}", v)}));
                }
            }
            _ => {}
        }
    }
    if !dead {
        out.emit(&json!({"ev":"end","t":t,"st":projection(&mut sender, &ctx, &added)}));
    } else {
        out.emit(&json!({"ev":"dead","t":t}));
    }
    let _ = catch(move || drop(sender));
}

fn _assert_send<T: Send>() {}
fn _sender_and_toi_are_send() {
    _assert_send::<Sender>();
    _assert_send::<Box<Toi>>();
}

pub fn replay_sender(args: &Args) {
    let input = args.str("in", "-");
    let mut out = Out::new(args.get("out"));
    let mut text = String::new();
    if input == "-" {
        std::io::stdin().read_to_string(&mut text).unwrap();
    } else {
        std::fs::File::open(&input).expect("open input").read_to_string(&mut text).unwrap();
    }
    // a behaviour that does not finish within the limit ends the process with exit code 3 and a side file naming it;
    // the caller resumes after it (see senderlib._one_chunk)
    let limit_ms = args.u64("limit_ms", 120_000);
    let from = args.u64("from", 0) as usize;
    if let Some(o) = args.get("out") {
        crate::recv_drv::start_watchdog(format!("{}.timeout", o), limit_ms);
    }
    for (n, line) in text.lines().filter(|l| !l.trim().is_empty()).enumerate() {
        if n < from {
            continue;
        }
        let beh: Value = serde_json::from_str(&line).expect("behaviour json");
        let bid = beh.get("beh").and_then(|b| b.as_i64()).unwrap_or(-1);
        crate::recv_drv::CUR_BEH.store(bid, std::sync::atomic::Ordering::Relaxed);
        let r = crate::recv_drv::guarded(limit_ms, || catch(|| run_behaviour(&beh, &mut out)));
        if let Err(m) = r {
            out.emit(&json!({"ev":"harness_panic","beh":beh.get("beh").cloned().unwrap_or(json!(-1)),"m":m}));
        }
        out.flush();
    }
    out.flush();
}
