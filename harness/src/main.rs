#![allow(dead_code)]
mod alloc;
mod catalog;
mod pure;
mod recv_drv;
mod rfcdec;
mod sender_drv;
mod util;

#[global_allocator]
static GLOBAL: alloc::Counting = alloc::Counting;

fn main() {
    util::install_quiet_panic_hook();
    let argv: Vec<String> = std::env::args().collect();
    if argv.len() < 2 {
        eprintln!("usage: vharness <cmd> [--key value]...");
        std::process::exit(2);
    }
    let args = util::Args::parse(&argv[2..]);
    match argv[1].as_str() {
        "partition" => pure::partition(&args),
        "partition-big" => pure::partition_big(&args),
        "pathfs" => pure::pathfs(&args),
        "wire-enc" => pure::wire_enc(&args),
        "wire-dec" => pure::wire_dec(&args),
        "wire-sender" => pure::wire_sender(&args),
        "replay-sender" => sender_drv::replay_sender(&args),
        "sessions" => recv_drv::sessions(&args),
        "replay-receiver" => recv_drv::replay_receiver(&args),
        c => {
            eprintln!("unknown command {}", c);
            std::process::exit(2);
        }
    }
}
