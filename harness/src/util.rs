//! Shared helpers: ndjson output, digests, panic capture, virtual clock.
use serde_json::Value;
use std::io::Write;
use std::time::{Duration, SystemTime};

pub struct Out {
    w: std::io::BufWriter<Box<dyn Write>>,
    pub lines: u64,
    /// when Some, events are collected here instead of being written
    pub mem: Option<Vec<Value>>,
}

impl Out {
    pub fn new(path: Option<&str>) -> Out {
        let inner: Box<dyn Write> = match path {
            Some(p) if p != "-" => Box::new(std::fs::File::create(p).expect("create output")),
            _ => Box::new(std::io::stdout()),
        };
        Out { w: std::io::BufWriter::with_capacity(1 << 20, inner), lines: 0, mem: None }
    }
    pub fn memory() -> Out {
        Out { w: std::io::BufWriter::new(Box::new(std::io::sink())), lines: 0, mem: Some(Vec::new()) }
    }
    pub fn emit(&mut self, v: &Value) {
        if let Some(m) = self.mem.as_mut() {
            m.push(v.clone());
            self.lines += 1;
            return;
        }
        serde_json::to_writer(&mut self.w, v).unwrap();
        self.w.write_all(b"\n").unwrap();
        self.lines += 1;
    }
    pub fn flush(&mut self) {
        self.w.flush().unwrap();
    }
}

/// first 8 hex digits of the MD5 of `data` ("-" is used by callers for "not applicable")
pub fn dg(data: &[u8]) -> String {
    let d = md5::compute(data);
    format!("{:02x}{:02x}{:02x}{:02x}", d.0[0], d.0[1], d.0[2], d.0[3])
}

pub fn dg_full(data: &[u8]) -> String {
    format!("{:x}", md5::compute(data))
}

/// Run `f`, turning a panic into Err(message).  The default panic hook is
/// silenced once for the whole process (install_quiet_panic_hook).
pub fn catch<T>(f: impl FnOnce() -> T) -> Result<T, String> {
    match std::panic::catch_unwind(std::panic::AssertUnwindSafe(f)) {
        Ok(v) => Ok(v),
        Err(e) => {
            let msg = if let Some(s) = e.downcast_ref::<&str>() {
                s.to_string()
            } else if let Some(s) = e.downcast_ref::<String>() {
                s.clone()
            } else {
                "panic".to_string()
            };
            Err(LAST_PANIC_LOC.with(|l| format!("{} @ {}", msg, l.borrow())))
        }
    }
}

thread_local! {
    static LAST_PANIC_LOC: std::cell::RefCell<String> = std::cell::RefCell::new(String::new());
}

pub fn install_quiet_panic_hook() {
    std::panic::set_hook(Box::new(|info| {
        let loc = info
            .location()
            .map(|l| format!("{}:{}", l.file(), l.line()))
            .unwrap_or_default();
        LAST_PANIC_LOC.with(|l| *l.borrow_mut() = loc);
    }));
}

/// Base instant of the virtual clock: 2025-01-01T00:00:00Z
pub const BASE_UNIX: u64 = 1_735_689_600;

pub fn base_time() -> SystemTime {
    SystemTime::UNIX_EPOCH + Duration::from_secs(BASE_UNIX)
}

/// virtual instant `t` ticks of `tick_us` microseconds after the base
pub fn vtime(t: i64, tick_us: u64) -> SystemTime {
    if t >= 0 {
        base_time() + Duration::from_micros(t as u64 * tick_us)
    } else {
        base_time() - Duration::from_micros((-t) as u64 * tick_us)
    }
}

/// deterministic content generator: byte i of object `seed`
pub fn gen_content(seed: u64, len: usize) -> Vec<u8> {
    // xorshift-based, cheap and position dependent so that slices differ
    let mut out = Vec::with_capacity(len);
    let mut x = seed.wrapping_mul(0x9E3779B97F4A7C15) ^ 0xD1B54A32D192ED03;
    for i in 0..len {
        x ^= x << 13;
        x ^= x >> 7;
        x ^= x << 17;
        // keep it mildly compressible: mix in a slow counter
        let b = if (i / 7) % 3 == 0 { (i / 7) as u8 } else { (x >> 24) as u8 };
        out.push(b);
    }
    out
}

pub fn jget<'a>(v: &'a Value, k: &str) -> &'a Value {
    v.get(k).unwrap_or_else(|| panic!("missing key {} in {}", k, v))
}
pub fn ji(v: &Value, k: &str) -> i64 {
    jget(v, k).as_i64().unwrap_or_else(|| panic!("key {} not int in {}", k, v))
}
pub fn ju(v: &Value, k: &str) -> u64 {
    ji(v, k) as u64
}
pub fn jb(v: &Value, k: &str) -> bool {
    jget(v, k).as_bool().unwrap_or_else(|| panic!("key {} not bool in {}", k, v))
}
pub fn js<'a>(v: &'a Value, k: &str) -> &'a str {
    jget(v, k).as_str().unwrap_or_else(|| panic!("key {} not str in {}", k, v))
}
pub fn jopt_i(v: &Value, k: &str, d: i64) -> i64 {
    v.get(k).and_then(|x| x.as_i64()).unwrap_or(d)
}
pub fn jopt_b(v: &Value, k: &str, d: bool) -> bool {
    v.get(k).and_then(|x| x.as_bool()).unwrap_or(d)
}
pub fn jopt_s<'a>(v: &'a Value, k: &str, d: &'a str) -> &'a str {
    v.get(k).and_then(|x| x.as_str()).unwrap_or(d)
}

/// simple argument parser: --key value pairs
pub struct Args {
    pub map: std::collections::HashMap<String, String>,
}
impl Args {
    pub fn parse(args: &[String]) -> Args {
        let mut map = std::collections::HashMap::new();
        let mut i = 0;
        while i < args.len() {
            if let Some(k) = args[i].strip_prefix("--") {
                if i + 1 < args.len() && !args[i + 1].starts_with("--") {
                    map.insert(k.to_string(), args[i + 1].clone());
                    i += 2;
                } else {
                    map.insert(k.to_string(), "true".to_string());
                    i += 1;
                }
            } else {
                i += 1;
            }
        }
        Args { map }
    }
    pub fn get(&self, k: &str) -> Option<&str> {
        self.map.get(k).map(|s| s.as_str())
    }
    pub fn u64(&self, k: &str, d: u64) -> u64 {
        self.get(k).map(|s| s.parse().expect("int arg")).unwrap_or(d)
    }
    pub fn str(&self, k: &str, d: &str) -> String {
        self.get(k).unwrap_or(d).to_string()
    }
}
