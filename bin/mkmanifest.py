#!/usr/bin/env python3
"""Regenerates /verif/MANIFEST.json from the table below (single source of truth)."""
import json, os
VERIF = os.path.dirname(os.path.dirname(os.path.abspath(__file__)))
ALL = ["C%02d" % i for i in range(1, 21)]

CHECKS = {
 "C07": dict(
    category="model_checking",
    text="Partition.tla (RFC 5052 s9.1 verbatim) is model-checked for its theorems on the grid, then every flute result on the complete grid (4-tuple, every block length, receiver-side partition rebuilt from a RaptorQ/Raptor EXT_FTI) is validated record by record by TLC against the specification; 2^48-range triples are judged by Apalache with the same operators. Exhaustive on the stated grid, sampled beyond it.",
    design_ref="DESIGN.md 4.1, 7 (C07)",
    note="Trusts TLC/Apalache arithmetic and the hook wrappers flute::verif::{block_partitioning, block_length} (one-line forwards to the private functions).",
    technique="TLA+ pure-function spec; TLC exhaustive grid + trace validation of flute outputs; Apalache for 48-bit values"),
}

NOT_YET = "check under construction in this round (specification and harness not finished yet)"

def main():
    checks = []
    for pid in ALL:
        if pid in CHECKS:
            c = CHECKS[pid]
            checks.append({
                "property_id": pid,
                "quick_cmd": "bin/check %s --tier quick" % pid,
                "thorough_cmd": "bin/check %s --tier thorough" % pid,
                "evidence_file": "/verif/evidence/%s.json" % pid,
                "replay_cmd_template": "bin/check %s --replay {path}" % pid,
                "engine": "tla",
                "level_claimed": {"category": c["category"], "text": c["text"], "design_ref": c["design_ref"]},
                "level_note": c["note"],
                "technique": c["technique"],
            })
    m = {
        "version": 1,
        "setup_cmd": "bin/setup",
        "hooks": {
            "guard": "cargo feature verif-hooks",
            "enable": "harness/Cargo.toml depends on flute with features = [\"verif-hooks\"] (path /repo)",
            "baseline_off_cmd": "cd /repo && cargo test --workspace --no-fail-fast --offline",
            "source_commits": HOOK_COMMITS,
            "add_only": True,
        },
        "engines": [{"name": "tla", "path": "/verif/spec", "serves_properties": sorted(CHECKS),
                     "kind_free_text": "explicit TLA+ specifications checked with TLC (Apalache for unbounded integers); bound to the code by replaying TLC-generated behaviours in a Rust harness and validating the recorded traces with TLC against monitor and mechanism specifications"}],
        "checks": checks,
        "not_applicable": [{"property_id": p, "reason": NOT_YET} for p in ALL if p not in CHECKS],
        "notes": "See DESIGN.md. Exit codes: 0 held (KNOWN-FINDING lines possible), 1 VIOLATION, 2 tool error.",
    }
    with open(os.path.join(VERIF, "MANIFEST.json"), "w") as f:
        json.dump(m, f, indent=1)
    print("MANIFEST.json: %d checks, %d not_applicable" % (len(checks), len(m["not_applicable"])))

HOOK_COMMITS = []
if __name__ == "__main__":
    import subprocess
    out = subprocess.run(["git", "-C", "/repo", "log", "--format=%H %s"], stdout=subprocess.PIPE, text=True).stdout
    HOOK_COMMITS = [l.split()[0] for l in out.splitlines() if l.split(" ", 1)[1].startswith("verif hooks")]
    main()
