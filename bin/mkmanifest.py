#!/usr/bin/env python3
"""Regenerates /verif/MANIFEST.json from the table below (single source of truth)."""
import json, os
VERIF = os.path.dirname(os.path.dirname(os.path.abspath(__file__)))
ALL = ["C%02d" % i for i in range(1, 21)]

CHECKS = {
 "C07": dict(
    category="model_checking",
    text="Partition.tla (RFC 5052 s9.1 verbatim) is model-checked for its theorems on the grid, then every flute result on the complete grid (4-tuple, every block length, receiver-side partition rebuilt from a RaptorQ/Raptor EXT_FTI) is validated record by record by TLC against the specification; 2^48-range triples are judged by Apalache with the same operators. Exhaustive on the stated grid, sampled beyond it. The spec-level theorem itself (0 <= I < N, I*A_large + (N-I)*A_small = T, A_large <= B, A_large - A_small in {0,1}) is proved for ALL L, E, B >= 1 with TLAPS for the very operators of PartitionCore.tla (spec/proofs/PartitionProof.tla, 199 obligations, re-checked by every run).",
    design_ref="DESIGN.md 4.1, 7 (C07)",
    note="Trusts TLC/Apalache arithmetic and the hook wrappers flute::verif::{block_partitioning, block_length} (one-line forwards to the private functions).",
    technique="TLA+ pure-function spec; TLAPS proof of its theorems; TLC exhaustive grid + trace validation of flute outputs; Apalache for 48-bit values"),
 "C08": dict(
    category="model_checking",
    text='Every packet the real Sender emits for TLC-enumerated behaviours (object shape x FEC scheme x parity x interleave x transfer count x carousel x publish mode x removal at every packet index, in the first and in a later carousel cycle) is decoded independently and judged by the TLA+ monitor: each (SBN, ESI) once per transfer, ESIs increasing per block, inside the Partition.tla-derived structure, source payload = RFC slice at the RFC offset, all source symbols present when a transfer ends, content rebuilt from source symbols alone, B only on the lone empty-object packet / single post-removal packet / last packet of the final transfer, A only on the close-session packet.',
    design_ref="DESIGN.md 4.3, 5.3, 7 (C08)",
    note="Trusts TLC, the harness's RFC decoder rfcdec (validated against Wire.tla by C06), expat for FDT XML, and the read-only hook snapshot for the instant at which an automatic FDT publication happened. Sampled (seeded) from the TLC-enumerated families in the quick tier, complete families in the thorough tier.",
    technique="TLA+ property monitor (SenderProps.tla) evaluated by TLC on traces recorded from the real Sender driven by TLC-generated behaviours (Gen_Sender.tla)"),

 "C10": dict(
    category="model_checking",
    text='Every FDT instance emitted in TLC-enumerated add/remove/publish/set_complete/read/advance histories (metadata strings needing escaping, cache directives, groups, ETag, per-object OTI, FDT cenc, both publish modes, start ids around the 2^20 wrap, durations 2 s - 3 d, automatic republication near expiry) is reassembled from its packets, parsed by expat and judged by the monitor: lists exactly the objects announced at the publication that created it, every attribute unaltered, Expires = publish second + duration, consecutive ids mod 2^20, one id one content, newest instance unexpired while polled.',
    design_ref="DESIGN.md 4.3, 5.3, 7 (C10)",
    note="Trusts TLC, the harness's RFC decoder rfcdec (validated against Wire.tla by C06), expat for FDT XML, and the read-only hook snapshot for the instant at which an automatic FDT publication happened. Sampled (seeded) from the TLC-enumerated families in the quick tier, complete families in the thorough tier.",
    technique="TLA+ property monitor (SenderProps.tla) evaluated by TLC on traces recorded from the real Sender driven by TLC-generated behaviours (Gen_Sender.tla)"),

 "C11": dict(
    category="model_checking",
    text="All add/publish/remove/advance/read sequences up to the depth bound over three objects in two queues (both publish modes, 1-2 slots) plus scheduling workloads are replayed; the monitor requires for every object packet that a completely emitted FDT instance lists the object and that no newly published instance is still pending, and that read never answers 'nothing' while an instance is pending.",
    design_ref="DESIGN.md 4.3, 5.3, 7 (C11)",
    note="Trusts TLC, the harness's RFC decoder rfcdec (validated against Wire.tla by C06), expat for FDT XML, and the read-only hook snapshot for the instant at which an automatic FDT publication happened. Sampled (seeded) from the TLC-enumerated families in the quick tier, complete families in the thorough tier.",
    technique="TLA+ property monitor (SenderProps.tla) evaluated by TLC on traces recorded from the real Sender driven by TLC-generated behaviours (Gen_Sender.tla)"),

 "C12": dict(
    category="model_checking",
    text="The monitor replicates the public lifecycle from observable events only (subscriber start/stop, add/remove results) and compares after every call with is_added / nb_objects / nb_transfers: exact transfer counts, disappearance after the last transfer, carousel objects stay, removal semantics (at most one more packet, with B, when already sent once or immediate stop; otherwise the transfer completes), no packet outside a transfer, bounded number of reads per instant, 'nothing to send' only when nothing is ready.",
    design_ref="DESIGN.md 4.3, 5.3, 7 (C12)",
    note="Trusts TLC, the harness's RFC decoder rfcdec (validated against Wire.tla by C06), expat for FDT XML, and the read-only hook snapshot for the instant at which an automatic FDT publication happened. Sampled (seeded) from the TLC-enumerated families in the quick tier, complete families in the thorough tier.",
    technique="TLA+ property monitor (SenderProps.tla) evaluated by TLC on traces recorded from the real Sender driven by TLC-generated behaviours (Gen_Sender.tla)"),

 "C13": dict(
    category="model_checking",
    text='Scheduling workloads enumerated by TLC (queues x objects of 0..several blocks x multiplex 0..3 x interleave 1..3 x late adds) and free interleavings: no lower-priority packet while a higher-priority object is in transfer or could start, at most max(1, multiplex_files) objects in transfer per queue, first starts in add order, round-robin alternation between objects continuously in transfer, at most interleave_blocks open blocks opened in increasing SBN.',
    design_ref="DESIGN.md 4.3, 5.3, 7 (C13)",
    note="Trusts TLC, the harness's RFC decoder rfcdec (validated against Wire.tla by C06), expat for FDT XML, and the read-only hook snapshot for the instant at which an automatic FDT publication happened. Sampled (seeded) from the TLC-enumerated families in the quick tier, complete families in the thorough tier.",
    technique="TLA+ property monitor (SenderProps.tla) evaluated by TLC on traces recorded from the real Sender driven by TLC-generated behaviours (Gen_Sender.tla)"),

 "C14": dict(
    category="model_checking",
    text='Timing grid enumerated by TLC (start time x carousel delay/interval incl. 0 x pacing target incl. zero and past x object size incl. 0 and 1 symbol x polling schedule x trigger_transfer_at) replayed under a virtual clock: no start before the start time, carousel gap respected between bursts, i-th paced packet never before t0 + i*target/n (exact integer arithmetic), overdue paced packet sent at the next poll, no panic and no stall on degenerate inputs.',
    design_ref="DESIGN.md 4.3, 5.3, 7 (C14)",
    note="Trusts TLC, the harness's RFC decoder rfcdec (validated against Wire.tla by C06), expat for FDT XML, and the read-only hook snapshot for the instant at which an automatic FDT publication happened. Sampled (seeded) from the TLC-enumerated families in the quick tier, complete families in the thorough tier.",
    technique="TLA+ property monitor (SenderProps.tla) evaluated by TLC on traces recorded from the real Sender driven by TLC-generated behaviours (Gen_Sender.tla)"),
 "C01": dict(
    category="model_checking",
    text="Configuration grid enumerated by TLC (object shape x 5 FEC schemes x parity x cenc x in-band/FDT-only FTI and CENC x publish mode x interleave x multiplex, three concurrent objects over two priority queues, transfer counts 1-2 with the two-transfer object read from a buffer, a scripted stream or a file, receive-once on/off, MD5 on/off): the recorded sessions are judged as sender behaviours by SenderProps.tla (a sender panic counts against C01) and every packet of the real session pushed in order into a real MultiReceiver; the monitor requires for every object the sender accepted exactly one (receive-once) / one per transfer exact complete writer, no failure, no writer for anything else, and metadata (location, type, lengths, MD5, groups, ETag, cache directive, cenc, OTI) equal to what the sender was given. Sessions whose object has 2049 - 6200 source blocks (more than the receiver pre-allocates) are included. The sender-side monitor additionally checks that the in-band FTI carries exactly the object's parameters and that whatever add_object accepts is transmittable: transfer lengths around 2^32 / 2^40 / 2^48 against the width of EXT_FTI, block sizes around the limits of the codecs (Raptor 8192, RaptorQ 56403, RS(2^8) 256 symbols), no panic / hang of the sender.",
    design_ref="DESIGN.md 4.4, 4.6, 5.3, 7 (C01)",
    note="Trusts TLC, the harness's scripted ObjectWriter/Builder and digests, expat for the FDT XML of the recorded sessions, Partition.tla for the block structure. The decode rule is the one stated by the property (RS: any k distinct symbols; others: all k source symbols), not flute's. Quick tier samples (seeded) the TLC-enumerated schedules; thorough tier replays far more or all of them.",
    technique="TLA+ property monitor (ReceiverProps.tla) evaluated by TLC on traces recorded from the real MultiReceiver fed TLC-enumerated fault schedules (Gen_Recv.tla) over sessions recorded from the real Sender; the mechanism specification Receiver.tla is model-checked composed with the monitor for every push sequence within bounds (MC_Receiver.tla, with broken variants as vacuity guard; for C01 / C02 / C16 also System.tla, the end-to-end composition Sender.tla -> channel -> Receiver.tla) and bound to the code by trace validation (Trace_Receiver.tla: callbacks and container snapshot of every call)"),

 "C02": dict(
    category="model_checking",
    text='Every subset (loss) of every recorded session of <= 13 packets, every multiset with multiplicity <= 2 of sessions of <= 8 packets, subsets of carousel sessions of <= 16 packets (order preserved) are enumerated by TLC over the real packet lists; the monitor computes Recoverable(o) in TLA+ from the delivered (SBN, ESI) sets and requires an exact complete delivery whenever it holds.',
    design_ref="DESIGN.md 4.4, 4.6, 5.3, 7 (C02)",
    note="Trusts TLC, the harness's scripted ObjectWriter/Builder and digests, expat for the FDT XML of the recorded sessions, Partition.tla for the block structure. The decode rule is the one stated by the property (RS: any k distinct symbols; others: all k source symbols), not flute's. Quick tier samples (seeded) the TLC-enumerated schedules; thorough tier replays far more or all of them.",
    technique="TLA+ property monitor (ReceiverProps.tla) evaluated by TLC on traces recorded from the real MultiReceiver fed TLC-enumerated fault schedules (Gen_Recv.tla) over sessions recorded from the real Sender; the mechanism specification Receiver.tla is model-checked composed with the monitor for every push sequence within bounds (MC_Receiver.tla, with broken variants as vacuity guard; for C01 / C02 / C16 also System.tla, the end-to-end composition Sender.tla -> channel -> Receiver.tla) and bound to the code by trace validation (Trace_Receiver.tla: callbacks and container snapshot of every call)"),

 "C03": dict(
    category="model_checking",
    text="All permutations x subsets of recorded sessions of <= 6 packets, duplicates, mixtures of two transfers, and every object packet of small sessions with payload first/middle/last byte flipped, truncated by 1-3 bytes or extended, with MD5 checking on and off: complete is only ever reported with the sender's exact bytes (always for unaltered packets; with altered packets whenever MD5 is announced and checked), never complete and failed on one writer.",
    design_ref="DESIGN.md 4.4, 4.6, 5.3, 7 (C03)",
    note="Trusts TLC, the harness's scripted ObjectWriter/Builder and digests, expat for the FDT XML of the recorded sessions, Partition.tla for the block structure. The decode rule is the one stated by the property (RS: any k distinct symbols; others: all k source symbols), not flute's. Quick tier samples (seeded) the TLC-enumerated schedules; thorough tier replays far more or all of them.",
    technique="TLA+ property monitor (ReceiverProps.tla) evaluated by TLC on traces recorded from the real MultiReceiver fed TLC-enumerated fault schedules (Gen_Recv.tla) over sessions recorded from the real Sender; the mechanism specification Receiver.tla is model-checked composed with the monitor for every push sequence within bounds (MC_Receiver.tla, with broken variants as vacuity guard; for C01 / C02 / C16 also System.tla, the end-to-end composition Sender.tla -> channel -> Receiver.tla) and bound to the code by trace validation (Trace_Receiver.tla: callbacks and container snapshot of every call)"),

 "C09": dict(
    category="model_checking",
    text='Writer scripts enumerated by TLC (builder answering store / already-received / abort, open failing, write failing at call 1..3, packets in order up to any index or object-before-FDT, receiver dropped at any point) plus the lossy, corrupted and late-join histories: one typestate automaton per writer id (open first and once, writes only between a successful open and the terminal, writes form a prefix of the object, at most one terminal, nothing after it, complete only with exactly the announced content, every opened writer terminated by the time of drop).',
    design_ref="DESIGN.md 4.4, 4.6, 5.3, 7 (C09)",
    note="Trusts TLC, the harness's scripted ObjectWriter/Builder and digests, expat for the FDT XML of the recorded sessions, Partition.tla for the block structure. The decode rule is the one stated by the property (RS: any k distinct symbols; others: all k source symbols), not flute's. Quick tier samples (seeded) the TLC-enumerated schedules; thorough tier replays far more or all of them.",
    technique="TLA+ property monitor (ReceiverProps.tla) evaluated by TLC on traces recorded from the real MultiReceiver fed TLC-enumerated fault schedules (Gen_Recv.tla) over sessions recorded from the real Sender; the mechanism specification Receiver.tla is model-checked composed with the monitor for every push sequence within bounds (MC_Receiver.tla, with broken variants as vacuity guard; for C01 / C02 / C16 also System.tla, the end-to-end composition Sender.tla -> channel -> Receiver.tla) and bound to the code by trace validation (Trace_Receiver.tla: callbacks and container snapshot of every call)"),

 "C16": dict(
    category="model_checking",
    text='Every join offset inside the first carousel cycle of recorded carousel sessions (5 schemes, in-band / FDT-only OTI and CENC, 1-2 objects, delay / interval carousel, both FDT modes): the receiver is fed the suffix up to the end of the second full cycle after the join and must have delivered every carouselled object exactly.',
    design_ref="DESIGN.md 4.4, 4.6, 5.3, 7 (C16)",
    note="Trusts TLC, the harness's scripted ObjectWriter/Builder and digests, expat for the FDT XML of the recorded sessions, Partition.tla for the block structure. The decode rule is the one stated by the property (RS: any k distinct symbols; others: all k source symbols), not flute's. Quick tier samples (seeded) the TLC-enumerated schedules; thorough tier replays far more or all of them.",
    technique="TLA+ property monitor (ReceiverProps.tla) evaluated by TLC on traces recorded from the real MultiReceiver fed TLC-enumerated fault schedules (Gen_Recv.tla) over sessions recorded from the real Sender; the mechanism specification Receiver.tla is model-checked composed with the monitor for every push sequence within bounds (MC_Receiver.tla, with broken variants as vacuity guard; for C01 / C02 / C16 also System.tla, the end-to-end composition Sender.tla -> channel -> Receiver.tla) and bound to the code by trace validation (Trace_Receiver.tla: callbacks and container snapshot of every call)"),

 "C19": dict(
    category="model_checking",
    text='Receiver clock skews from -30 years to +30 years x transit-delay classes around the FDT duration (0, D-3, D+3, 2D; the +-2 s band excluded) x D in {10 s, 30 s, 1 h} x SCT present/absent x expiry check on/off x object before/after FDT x cleanup in between, all combinations: delivery starts only through an instance unexpired on the estimated sender clock, the outcome equals the one computed on the sender clock, nothing is counted as failed for an expired announcement.',
    design_ref="DESIGN.md 4.4, 4.6, 5.3, 7 (C19)",
    note="Trusts TLC, the harness's scripted ObjectWriter/Builder and digests, expat for the FDT XML of the recorded sessions, Partition.tla for the block structure. The decode rule is the one stated by the property (RS: any k distinct symbols; others: all k source symbols), not flute's. Quick tier samples (seeded) the TLC-enumerated schedules; thorough tier replays far more or all of them.",
    technique="TLA+ property monitor (ReceiverProps.tla) evaluated by TLC on traces recorded from the real MultiReceiver fed TLC-enumerated fault schedules (Gen_Recv.tla) over sessions recorded from the real Sender; the mechanism specification Receiver.tla is model-checked composed with the monitor for every push sequence within bounds (MC_Receiver.tla, with broken variants as vacuity guard; for C01 / C02 / C16 also System.tla, the end-to-end composition Sender.tla -> channel -> Receiver.tla) and bound to the code by trace validation (Trace_Receiver.tla: callbacks and container snapshot of every call)"),
 "C15": dict(
    category="model_checking",
    text="ToiAlloc.tla (mechanism: next / reserved / handles / objects, allocate with skip of 0 and of reserved values, release) is model-checked for C15_Inv (next allocation free and non-zero, held values pairwise distinct and exactly the reserved set) from initial values {0, 1, M-2, M-1}; every operation history up to the depth bound that TLC prints is replayed on the real Sender for every TOI width with the initial value next to the wrap point, handle drops partly on another thread, plus the random default initial value and a full cycle of the 16-bit space with the maximum TOI live; Mon_Toi.tla judges every allocation (non-zero, within width, not reserved / attached to a live object, equal to the TOI of the object's packets) and SenderProps.tla the packets and FDT entries. Unbounded in the TOI width: proofs/ToiAllocProof.tla (TLAPS, all M >= 2: the value an allocation returns is non-zero, below M, not live) from the loop lemma that TLC checks exhaustively on ToiAlloc!Advance for M = 2..10, linked to ToiAlloc.tla by the TLC-checked action property AbsStep.",
    design_ref="DESIGN.md 4.3, 7 (C15)",
    note="Trusts TLC; TOIs compared as hexadecimal strings; 'live object' = is_added or still held by a sender session (hook snapshot); thread-safety is Send (compile-time assertion in the harness) plus drops executed on another thread, not a schedule exploration of Rust threads.",
    technique="TLA+ mechanism spec model-checked with TLC (and proved for every width with TLAPS from a TLC-checked loop lemma); TLC-generated histories replayed on the real Sender; TLA+ monitor on the recorded traces"),
 "C20": dict(
    category="model_checking",
    text="TLC enumerates every composition of the object length into read sizes for objects of 1..8 bytes (E, B in {1,2}, No-Code and Reed-Solomon, transfer count 1-2, with and without carousel cycles); the real Sender is run once from a buffer and once from a scripted seekable stream returning exactly those read sizes (and from a file, a 5-byte BufReader, 1-byte and 3-byte reads for larger objects); Mon_Source.tla requires the complete packet sequences (all decoded fields and payload digests, timestamps apart) to be identical, over several transfers and carousel cycles.",
    design_ref="DESIGN.md 7 (C20)",
    note="Trusts TLC, rfcdec and MD5 digests of payloads.",
    technique="TLC-enumerated read schedules replayed on the real Sender; TLA+ monitor comparing packet sequences"),
 "C04": dict(
    category="fault_enumeration",
    text="TLC enumerates (valid prefix length) x (adversarial operation) over real sessions of every scheme and signalling mode: every single-byte substitution in the header region of every packet, 30 crafted FDT instances (missing / zero / huge / non-numeric / inconsistent attributes, malformed XML) each followed by object packets, seeded mutation sequences (bit flips, header-field edits, truncation, extension, splicing), every byte string of length <= 2 (thorough <= 3) and seeded longer ones.  All cases are pushed into one real MultiReceiver (aggregated events: count, ok, err, panic, slowest call, peak heap per call; offenders itemised), a watchdog catches hangs, and afterwards a valid session with fresh TOIs on the same endpoint and TSI must be delivered exactly.  The TLA+ monitor (ReceiverProps.tla) judges every event: result in {ok, err}, bounded time and heap, writer protocol still respected, valid suffix delivered. Plus 27 783 well-formed packets built by the encoder of Wire.tla whose EXT_FTI values sit on the limits of the field widths and of the FEC schemes (scheme x B x E x transfer-length class x scheme-specific values x (SBN, ESI) on and beyond the block).",
    design_ref="DESIGN.md 7 (C04), 8",
    note="Raw bytes are below the abstraction of the specification: the spec supplies the receiver states (prefixes), the classes of adversarial operations and the oracle; which concrete bytes misbehave is found by enumeration in the harness.  Heap measured by a counting allocator; time limits 1 s per datagram and a 3 s watchdog.",
    technique="TLC-enumerated fault schedules + harness-side mass enumeration below the abstraction; TLA+ monitor on recorded traces"),
 "C05": dict(
    category="model_checking",
    text="PathWalk.tla enumerates the property's grammar completely to the depth bound (9 prefixes x up to 3 (quick) / 5 (thorough) segments out of 8 kinds x outcome complete / MD5 error / interrupted) plus seeded random strings; each location is written XML-escaped into a crafted FDT (so strings the url crate cannot carry are included) and delivered with packets from flute's own packet builder to a real MultiReceiver with ObjectWriterFSBuilder inside a jail directory with canaries on six levels above the destination; the before/after tree diff is judged by PathWalk.tla: every touched path is strictly below the destination directory, a failed object leaves no file, a plain location ends up byte-exact at dest/<path> (filesystem clause of C01).",
    design_ref="DESIGN.md 4.7, 7 (C05)",
    note="URL parsing (url crate) is not modelled; effects outside the jail are only observable through the @ROOT@ segment pointing inside the jail.",
    technique="TLA+ grammar enumeration with TLC; recorded file-system effects validated by TLC against the spec"),
 "C17": dict(
    category="model_checking",
    text="TLC enumerates traffic patterns that keep objects undecodable (no FDT, first symbol of every block missing, only the first packet of every FDT instance, everything) x repetitions x cache limits x error-list lengths x time-outs over real multi-object sessions with multi-packet FDT instances, plus seeded long runs with 20-40 TOIs; after every call the monitor bounds the bytes really held in the packet cache (<= limit + one packet) and in decoded blocks (<= limit + 2 blocks), the failed-object list, and after a cleanup with all time-outs elapsed requires no object, no unfinished FDT instance, no idle session and the heap back near its initial level.",
    design_ref="DESIGN.md 7 (C17)",
    note="Byte counts are summed over the real containers by the read-only hook snapshot (not flute's own counters) and cross-checked with a counting global allocator; 'elapsed' = time-out 0 plus a 5 ms sleep (monotonic clock).",
    technique="TLA+ monitor (ReceiverProps.tla) on traces of the real MultiReceiver under TLC-enumerated traffic patterns"),
 "C18": dict(
    category="model_checking",
    text="MultiRecv.tla models the TSI filter as the code implements it (reference counts removed at zero, exact match for the all-TSI bypass, source wildcard for per-TSI entries) and TLC proves for every operation sequence up to the depth bound that it equals the property's statement on the history of calls (added more often than removed).  Every sequence of <= 3 (thorough 4) add / remove / add-all / remove-all / set-filtering operations over 2 groups x {source, none} x 2 TSIs, each followed by a probe of all 8 keys, and every interleaving of 2-3 real sessions (distinct / equal TSIs, close-session packet anywhere, or expiry + cleanup) is replayed on the real MultiReceiver; Mon_Multi.tla checks processed iff listened, one open per creation, one close per end (close-session packet, expiry, drop), callbacks tagged with the session's endpoint and TSI, per-session delivery unchanged by interleaving.",
    design_ref="DESIGN.md 4.5, 7 (C18)",
    note="The race of the double is_expired() evaluation in MultiReceiver::cleanup (DESIGN D20) needs a sub-microsecond coincidence and is not reachable.",
    technique="TLA+ mechanism spec model-checked with TLC; TLC-generated behaviours replayed on the real MultiReceiver; TLA+ monitor on recorded traces"),
 "C06": dict(
    category="model_checking",
    text="Wire.tla specifies the ALC/LCT layouts byte by byte (LCT header with every C/S/O/H width, header-extension walk with fixed and variable-length extensions up to HEL 255, EXT_FDT, EXT_CENC, EXT_TIME with NTP arithmetic on digit sequences, EXT_FTI and FEC payload ids of FEC 0, 1, 2, 5, 6, 129).  TLC enumerates the field-class combinations in both directions: packets built by flute's packet builder are decoded by Wire.tla and must carry exactly the values given (TSI < 2^48, TOI < 2^112, CCI, flags, FDT id/version, CENC, SCT to the microsecond, FTI per scheme, payload ids); packets built by Wire.tla (all width combinations, non-minimal widths, unknown extensions before/after the known ones) are parsed by flute and must give the same values; the harness decoder rfcdec is validated against Wire.tla on all of them and on every packet of real Sender runs.",
    design_ref="DESIGN.md 4.2, 7 (C06)",
    note="No RFC text is available offline: layouts come from memory of the RFCs, the figures quoted in flute's comments and the raptorq crate (RFC 6330); the Raptor (FEC 1) EXT_FTI is specified up to self-consistency only (D9).  Class representatives and boundary values, not all 2^112 TOIs.",
    technique="TLA+ byte-level wire specification; TLC enumeration both directions; recorded (bytes, values) pairs validated by TLC"),
}

NOT_YET = "check under construction in this round (specification and harness not finished yet)"

def main():
    checks = []
    for pid in ALL:
        if pid in CHECKS:
            c = CHECKS[pid]
            checks.append({
                "property_id": pid,
                "quick_cmd": "bin/check %s --tier quick" % pid,
                "thorough_cmd": "bin/check %s --tier thorough" % pid,
                "evidence_file": "/verif/evidence/%s.json" % pid,
                "replay_cmd_template": "bin/check %s --replay {path}" % pid,
                "engine": "tla",
                "level_claimed": {"category": c["category"], "text": c["text"], "design_ref": c["design_ref"]},
                "level_note": c["note"],
                "technique": c["technique"],
            })
    m = {
        "version": 1,
        "setup_cmd": "bin/setup",
        "hooks": {
            "guard": "cargo feature verif-hooks",
            "enable": "harness/Cargo.toml depends on flute with features = [\"verif-hooks\"] (path /repo)",
            "baseline_off_cmd": "cd /repo && cargo test --workspace --no-fail-fast --offline",
            "source_commits": HOOK_COMMITS,
            "add_only": True,
        },
        "engines": [{"name": "tla", "path": "/verif/spec", "serves_properties": sorted(CHECKS),
                     "kind_free_text": "explicit TLA+ specifications checked with TLC (Apalache for unbounded integers); bound to the code by replaying TLC-generated behaviours in a Rust harness and validating the recorded traces with TLC against monitor and mechanism specifications"}],
        "checks": checks,
        "not_applicable": [{"property_id": p, "reason": NOT_YET} for p in ALL if p not in CHECKS],
        "notes": "See DESIGN.md. Exit codes: 0 held (KNOWN-FINDING lines possible), 1 VIOLATION, 2 tool error.",
    }
    with open(os.path.join(VERIF, "MANIFEST.json"), "w") as f:
        json.dump(m, f, indent=1)
    print("MANIFEST.json: %d checks, %d not_applicable" % (len(checks), len(m["not_applicable"])))

HOOK_COMMITS = []
if __name__ == "__main__":
    import subprocess
    out = subprocess.run(["git", "-C", "/repo", "log", "--format=%H %s"], stdout=subprocess.PIPE, text=True).stdout
    HOOK_COMMITS = [l.split()[0] for l in out.splitlines() if l.split(" ", 1)[1].startswith("verif hooks")]
    main()
