"""C06 - ALC/LCT wire format: Wire.tla is the independent RFC implementation."""
import concurrent.futures as cf
from common import *
import senderlib, recvlib


def gen(ctx, mode, R):
    cfg = ctx.path("genw-%s.cfg" % mode)
    open(cfg, "w").write('SPECIFICATION Spec\nCONSTANTS Mode = "%s" R = %d\nINVARIANT Emit\nCHECK_DEADLOCK FALSE\n' % (mode, R))
    r = tlc(ctx, "Gen_Wire", cfg=cfg, workers=4, mode="mc", timeout=3000)
    tlc_must_pass(ctx, r, "Gen_Wire %s" % mode)
    ctx.mc.append({"name": "Gen_Wire[%s,R=%d]" % (mode, R), "states": r["distinct"], "generated": r["generated"], "wall_s": r["wall_s"]})
    return r["tagged"].get("REPLAY", [])


def validate(ctx, cmd, rows, label, extra=None):
    chunks = [rows[i:i + 4000] for i in range(0, len(rows), 4000)]
    n = 0

    def one(ic):
        i, chunk = ic
        inp, outp = ctx.path("%s-%d.in" % (label, i)), ctx.path("%s-%d.out" % (label, i))
        write_ndjson(inp, chunk)
        harness([cmd, "--in", inp, "--out", outp], timeout=3000)
        if extra:
            recs = read_ndjson(outp)
            for r in recs:
                r.update(extra)
            write_ndjson(outp, recs)
        k = sum(1 for _ in open(outp))
        res = tlc(ctx, "Mon_Wire", workers=1, trace=outp, timeout=900, env={"JAVA_TOOL_OPTIONS": JAVA_OPTS_TRACE + " -Xmx3g"})
        tlc_must_pass(ctx, res, "Mon_Wire %s chunk %d" % (label, i))
        sample = json.loads(open(outp).readline())
        os.remove(inp); os.remove(outp)
        return res, k, sample

    with cf.ThreadPoolExecutor(max_workers=8) as ex:
        for res, k, sample in ex.map(one, list(enumerate(chunks))):
            n += k
            for v in res["viol"]:
                v = dict(v); v["source"] = label
                ctx.violations.append(v)
            if len(ctx.samples) < 3:
                ctx.samples.append({"direction": label, "record": json.dumps(sample)[:600]})
    return n


def main(ctx):
    build_harness()
    quick = ctx.tier == "quick"
    enc = gen(ctx, "enc", 8 if quick else 120)
    dec = gen(ctx, "dec", 6 if quick else 80)
    n1 = validate(ctx, "wire-enc", enc, "flute-encodes")
    n2 = validate(ctx, "wire-dec", dec, "flute-decodes", extra={"spec_built": True})
    # packets of real Sender runs (every scheme, signalling mode, cenc, SCT)
    specs = senderlib.sample(recvlib.gen_sessions(ctx, "clean"), 150 if quick else 2000, ctx.seed)
    n3 = validate(ctx, "wire-sender", specs, "sender-runs")
    cov = {"states": sum(m["states"] for m in ctx.mc) + n1 + n2 + n3, "transitions": sum(m["generated"] for m in ctx.mc) + n1 + n2 + n3,
           "traces_validated_against_impl": n1 + n2 + n3,
           "records": {"flute_built_packets_decoded_by_Wire.tla": n1, "Wire.tla_built_packets_parsed_by_flute": n2, "packets_of_real_sender_runs": n3},
           "exhaustive": False,
           "explanation": "(i) every combination of CCI (9 values over the 4 width classes) x TSI (7) x TOI (15, incl. the FDT) x close-object flag, each crossed with R rotations through 19 FEC OTI boundary records (6 schemes), extension sets, 7 SCT instants from 1970 to the end of NTP era 0 and payload-id range ends, is encoded by flute's packet builder and decoded by Wire.tla; (ii) every (C, S, O, H) width combination x 3 value classes x 6 extension layouts (unknown fixed / variable-length extensions with HEL 1, 3, 64, 70 before and after the known ones) x R rotations is built by Wire.tla and parsed by flute (parse_alc_pkt, parse_payload_id, get_sender_current_time); (iii) the harness decoder rfcdec is compared with Wire.tla on all of them and on every packet of real Sender runs.  The Raptor (FEC 1) EXT_FTI layout is specified up to self-consistency only (DESIGN D9)"}
    return finish(ctx, "model_checking", cov, ["RFC layouts are transcribed from memory of the RFCs and the figures quoted in flute's comments, cross-checked with the raptorq crate for RFC 6330; no RFC text is available offline",
                                                 "wide fields are byte sequences compared modulo leading zeros; NTP arithmetic on base-256 digit sequences"])
