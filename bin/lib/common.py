"""Shared machinery of /verif/bin/check: harness build, TLC/Apalache runs,
violation collection, known-findings filter, evidence files, exit codes.

Exit codes: 0 property held on everything explored (possibly with KNOWN-FINDING
lines), 1 at least one violation not listed in known_findings.json (a line
"VIOLATION property=<id> replay=<path>" is printed), 2 tool error."""
import json, os, re, shutil, subprocess, sys, time, hashlib

VERIF = os.path.dirname(os.path.dirname(os.path.dirname(os.path.abspath(__file__))))
SPEC = os.path.join(VERIF, "spec")
HARNESS_DIR = os.path.join(VERIF, "harness")
HARNESS = os.path.join(HARNESS_DIR, "target", "debug", "vharness")
REPO = "/repo"
JAVA_OPTS_TRACE = "-Xss1g -Dtlc2.tool.queue.IStateQueue=StateDeque -Xmx4g"   # a later -Xmx (appended by callers) wins
JAVA_OPTS_MC = "-Xss512m -Xmx12g"


class ToolError(Exception):
    pass


def log(*a):
    print("[check]", *a, file=sys.stderr, flush=True)


class Ctx:
    """One run of one check."""

    def __init__(self, prop, tier, seed):
        self.prop = prop
        self.tier = tier
        self.seed = seed
        self.t0 = time.time()
        self.work = os.path.join(VERIF, "work", "%s-%d" % (prop, os.getpid()))
        shutil.rmtree(self.work, ignore_errors=True)
        os.makedirs(self.work)
        self.violations = []      # dicts: property, what, beh, line, witness, source, behaviour
        self.mc = []              # dicts: name, states, distinct, wall_s
        self.traces = 0           # behaviours replayed on the real code and judged
        self.events = 0
        self.samples = []
        self.notes = {}
        self.assumptions = []
        self.conformance = {}

    def path(self, name):
        return os.path.join(self.work, name)

    def cleanup(self):
        if os.environ.get("VERIF_KEEP_WORK") != "1":
            shutil.rmtree(self.work, ignore_errors=True)


def run(cmd, env=None, timeout=None, cwd=None, check=True, capture=True):
    e = dict(os.environ)
    if env:
        e.update(env)
    try:
        p = subprocess.run(cmd, env=e, cwd=cwd, timeout=timeout, stdout=subprocess.PIPE if capture else None,
                           stderr=subprocess.STDOUT if capture else None, text=True, errors="replace")
    except subprocess.TimeoutExpired as ex:
        raise ToolError("timeout after %ss: %s" % (timeout, " ".join(map(str, cmd))[:300]))
    if check and p.returncode != 0:
        raise ToolError("command failed (%d): %s\n%s" % (p.returncode, " ".join(map(str, cmd))[:300], (p.stdout or "")[-3000:]))
    return p


_built = False


def build_harness():
    """(Re)build the harness against /repo's current working tree, hooks on."""
    global _built
    if _built:
        return
    lock = os.path.join(HARNESS_DIR, "Cargo.lock")
    if not os.path.exists(lock):
        shutil.copy(os.path.join(REPO, "Cargo.lock"), lock)
    t = time.time()
    p = run(["cargo", "build", "--offline", "--quiet"], cwd=HARNESS_DIR, timeout=1500, check=False,
            env={"CARGO_NET_OFFLINE": "true"})
    if p.returncode != 0:
        raise ToolError("harness build failed:\n" + (p.stdout or "")[-4000:])
    log("harness built in %.1fs" % (time.time() - t))
    _built = True


def harness(args, timeout=3600, check=True, stdin=None):
    build_harness()
    e = dict(os.environ)
    try:
        p = subprocess.run([HARNESS] + [str(a) for a in args], stdout=subprocess.PIPE, stderr=subprocess.PIPE,
                           text=True, errors="replace", timeout=timeout, env=e, input=stdin)
    except subprocess.TimeoutExpired:
        raise ToolError("harness timeout: %s" % " ".join(map(str, args))[:300])
    if check and p.returncode != 0:
        raise ToolError("harness failed (%d): %s\n%s" % (p.returncode, " ".join(map(str, args))[:300], p.stderr[-3000:]))
    return p


_TLC_STATS = re.compile(r"(\d+) states generated, (\d+) distinct states found")
_VIOL = re.compile(r'^<<"VIOL", "(.*)">>$')
_TAGGED = re.compile(r'^<<"([A-Z]+)", (.*)>>$')


def _unescape_tla(s):
    # TLC prints strings with \" and \\ escapes
    return s.replace('\\"', '"').replace("\\\\", "\\")


import itertools
TLC_SEQ = itertools.count(1)


def tlc(ctx, module, cfg=None, workers=1, trace=None, env=None, timeout=3600, simulate=None, depth=None,
        extra=None, mode="trace"):
    """Run TLC on spec/<module>.tla.  Returns dict(stdout, generated, distinct, viol[list], tagged{tag:[json]}, ok)."""
    # unique per call: several threads start TLC on the same module in the same millisecond (warm.py, chunked replays)
    meta = ctx.path("tlc-%s-%d-%d" % (module, os.getpid(), next(TLC_SEQ)))
    cmd = ["tlc", "-workers", str(workers), "-metadir", meta, "-cleanup", "-noGenerateSpecTE",
           "-config", cfg if (cfg and os.path.isabs(cfg)) else os.path.join(SPEC, (cfg or module) + ".cfg")]
    if simulate:
        cmd += ["-simulate", simulate]
    if depth:
        cmd += ["-depth", str(depth)]
    if ctx.seed is not None and (simulate or mode == "mc"):
        cmd += ["-seed", str(ctx.seed)]
    if extra:
        cmd += extra
    cmd += [os.path.join(SPEC, module + ".tla")]
    e = {"JAVA_TOOL_OPTIONS": JAVA_OPTS_TRACE if mode == "trace" else JAVA_OPTS_MC}
    if trace:
        e["TRACE"] = trace
    if env:
        e.update(env)
    t = time.time()
    p = run(cmd, env=e, timeout=timeout, check=False, cwd=ctx.work)
    out = p.stdout or ""
    shutil.rmtree(meta, ignore_errors=True)
    res = {"stdout": out, "rc": p.returncode, "wall_s": round(time.time() - t, 2), "viol": [], "tagged": {},
           "generated": 0, "distinct": 0}
    for line in out.splitlines():
        m = _TAGGED.match(line)
        if m:
            tag, raw = m.group(1), m.group(2)
            if raw.startswith('"') and raw.endswith('"'):
                body = _unescape_tla(raw[1:-1])
            else:
                body = raw
            try:
                val = json.loads(body)
            except Exception:
                val = body
            if tag == "VIOL":
                res["viol"].append(val)
            else:
                res["tagged"].setdefault(tag, []).append(val)
    ms = _TLC_STATS.findall(out)
    if ms:
        res["generated"], res["distinct"] = int(ms[-1][0]), int(ms[-1][1])
    res["ok"] = ("Model checking completed. No error has been found." in out) or (simulate is not None and p.returncode in (0,))
    return res


def tlc_must_pass(ctx, res, what):
    if not res["ok"]:
        tail = "\n".join(l for l in res["stdout"].splitlines() if not re.match(r"^\d+\. Line", l))[-3000:]
        raise ToolError("TLC did not complete on %s (rc=%s):\n%s" % (what, res["rc"], tail))


def dedupe_viol(viols):
    seen, out = set(), []
    for v in viols:
        k = json.dumps(v, sort_keys=True)
        if k not in seen:
            seen.add(k)
            out.append(v)
    return out


# --------------------------------------------------------------------------
# known findings

def load_known():
    p = os.path.join(VERIF, "known_findings.json")
    if not os.path.exists(p):
        return []
    return json.load(open(p)).get("findings", [])


def _dig(obj, path):
    cur = obj
    for part in path.split("."):
        if isinstance(cur, dict) and part in cur:
            cur = cur[part]
        elif isinstance(cur, list) and part.lstrip("-").isdigit() and -len(cur) <= int(part) < len(cur):
            cur = cur[int(part)]
        else:
            return None
    return cur


def _cond_ok(c, subject):
    v = _dig(subject, c["path"])
    if "eq" in c:
        return v == c["eq"]
    if "in" in c:
        return v in c["in"]
    if "ne" in c:
        return v != c["ne"]
    if "ge" in c:
        return v is not None and v >= c["ge"]
    if "le" in c:
        return v is not None and v <= c["le"]
    if "regex" in c:
        return v is not None and re.search(c["regex"], v if isinstance(v, str) else json.dumps(v)) is not None
    if "exists" in c:
        return (v is not None) == c["exists"]
    if "any" in c:
        return isinstance(v, list) and any(all(_cond_ok(sc, el) for sc in c["any"]) for el in v)
    return False


def match_known(v, known):
    """v: violation dict (property, what, witness, behaviour).  Returns the matching known entry or None."""
    for k in known:
        if k.get("status") != "known":
            continue
        props = k["property"] if isinstance(k["property"], list) else [k["property"]]
        if v.get("property") not in props:
            continue
        if "what" in k and k["what"] != v.get("what"):
            continue
        if "what_in" in k and v.get("what") not in k["what_in"]:
            continue
        if all(_cond_ok(c, v) for c in k.get("match", [])):
            return k
    return None


# --------------------------------------------------------------------------
# verdict, evidence, exit

def write_replay(ctx, v, idx):
    d = os.path.join(VERIF, "replays")
    os.makedirs(d, exist_ok=True)
    h = hashlib.md5(json.dumps(v, sort_keys=True).encode()).hexdigest()[:10]
    p = os.path.join(d, "%s-%s.json" % (ctx.prop, h))
    with open(p, "w") as f:
        json.dump({"property": ctx.prop, "tier": ctx.tier, "seed": ctx.seed, "violation": v,
                   "rerun": "bin/check %s --replay %s" % (ctx.prop, p)}, f, indent=1)
    return p


def finish(ctx, level, coverage, extra_assumptions=None):
    known = load_known()
    viols = dedupe_viol([v for v in ctx.violations if v.get("property") == ctx.prop])
    other = dedupe_viol([v for v in ctx.violations if v.get("property") != ctx.prop])
    new, kn = [], {}
    for v in viols:
        k = match_known(v, known)
        if k:
            kn.setdefault(k["id"], [k, 0])
            kn[k["id"]][1] += 1
        else:
            new.append(v)
    for kid, (k, n) in sorted(kn.items()):
        print("KNOWN-FINDING: property=%s %s [%s, seen %d times]" % (ctx.prop, k["what_fails"], kid, n))
    # group new violations by (what) so that the output stays readable; one replay per group (first witness)
    groups = {}
    for v in new:
        groups.setdefault(v.get("what"), []).append(v)
    for what, vs in sorted(groups.items(), key=lambda kv: str(kv[0])):
        p = write_replay(ctx, vs[0], 0)
        print("VIOLATION property=%s replay=%s" % (ctx.prop, p))
        print("  what=%s count=%d first-witness=%s" % (what, len(vs), json.dumps(vs[0].get("witness"))[:400]))
    cov = dict(coverage)
    cov.setdefault("samples", ctx.samples[:5] or ["(none)"])
    cov["known_findings_seen"] = {k: n for k, (_, n) in kn.items()}
    cov["violations_other_properties_seen_here"] = len(other)
    cov["mc_runs"] = ctx.mc
    if ctx.conformance:
        cov["mechanism_conformance"] = ctx.conformance
    cov.update(ctx.notes)
    ev = {"property_id": ctx.prop, "tier": ctx.tier, "seed": ctx.seed if ctx.seed is not None else 0,
          "level": level, "coverage": cov,
          "assumptions": ctx.assumptions + (extra_assumptions or []),
          "wall_s": round(time.time() - ctx.t0, 2), "violations": len(new)}
    os.makedirs(os.path.join(VERIF, "evidence"), exist_ok=True)
    with open(os.path.join(VERIF, "evidence", ctx.prop + ".json"), "w") as f:
        json.dump(ev, f, indent=1, sort_keys=True)
    ctx.cleanup()
    log("%s %s: %d new violation(s), %d known finding(s), %.1fs" % (ctx.prop, ctx.tier, len(new), len(kn), time.time() - ctx.t0))
    return 1 if new else 0


def read_ndjson(path):
    out = []
    with open(path) as f:
        for line in f:
            line = line.strip()
            if line:
                out.append(json.loads(line))
    return out


def write_ndjson(path, rows):
    with open(path, "w") as f:
        for r in rows:
            f.write(json.dumps(r, separators=(",", ":")) + "\n")
