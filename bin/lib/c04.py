"""C04 - untrusted input: no packet sequence can panic, hang or blow up the receiver; a valid session pushed
afterwards is still delivered."""
import random
from common import *
import recvlib, senderlib, recvcheck

SUFFIX = {"cfg": {"scheme": 0, "E": 2048, "B": 8, "queues": [[0, 2]], "toi_init": 1000, "fdt_start": 500},
          "objs": [{"clen": 12, "oti": {"scheme": 5, "E": 4, "B": 2, "par": 1, "fti": True}}, {"clen": 9, "cenc": 3, "oti": {"scheme": 0, "E": 16, "B": 2, "par": 0, "fti": False}}],
          "ops": [["add", 1], ["add", 2], ["publish"], ["drain"]]}


def main(ctx):
    if getattr(ctx, "replay", None):
        return recvcheck.main(ctx)
    quick = ctx.tier == "quick"
    specs = recvlib.gen_sessions(ctx, "small")
    specs = recvlib.sample_sessions(specs, 80 if quick else 400, ctx.seed)
    specs.append(SUFFIX)
    suffix_sid = len(specs) - 1
    infos = recvlib.session_infos(ctx, specs, "c04")
    nsuf = len(infos[suffix_sid]["pkts"])
    adv = recvlib.gen_chan(ctx, "c04", infos, sel=lambda i: i["sid"] != suffix_sid)
    total = len(adv)
    # equal shares per kind of adversarial operation (a uniform sample would be dominated by the per-packet operations)
    kinds = {}
    for a in adv:
        kinds.setdefault(a["adv"][0], []).append(a)
    share = (1500 if quick else 24000) // max(1, len(kinds))
    adv = [x for k_ in sorted(kinds) for x in senderlib.sample(kinds[k_], share, ctx.seed)]
    rnd = random.Random(ctx.seed)
    behs = []
    for a in adv:
        op = list(a["adv"])
        if op[0] == "mutseq":
            op = ["mutseq", rnd.randrange(1, 1 << 30), 300 if quick else 2000]
        elif op[0] == "garbage":
            op = ["garbage", 1, 3000, rnd.randrange(1, 1 << 30)]
        sched = [["stream", 1]] + ([["seq", 1, a["prefix"]]] if a["prefix"] > 0 else []) + [op, ["stream", 0], ["seq", 1, nsuf]]
        behs.append({"fam": "c04", "sid": suffix_sid, "streams": [[suffix_sid, 10], [a["sid"], 10]], "rcfg": {"max_cache": 100000}, "sched": sched})
    # extreme but well-formed packets built by the wire-format specification (family c04x)
    advx = recvlib.gen_chan(ctx, "c04x", infos, sel=lambda i: i["sid"] == infos[0]["sid"])
    total += sum(len(a["adv"][1]) for a in advx)
    ctx.notes["c04x_packets_built_by_wire_spec"] = sum(len(a["adv"][1]) for a in advx)
    for a in senderlib.sample(advx, 60 if quick else None, ctx.seed):
        behs.append({"fam": "c04", "sid": suffix_sid, "streams": [[suffix_sid, 10], [a["sid"], 10]], "rcfg": {"max_cache": 100000}, "what": a["what"],
                     "sched": [["stream", 1], list(a["adv"]), ["stream", 0], ["seq", 1, nsuf]]})
    # all byte strings of length <= 2 exhaustively (quick) / <= 3 (thorough: 16.8 M strings, split by leading byte ranges is not
    # possible with this operation, so length 3 is covered by 2 M seeded samples in quick and exhaustively in thorough)
    behs.append({"fam": "c04", "sid": suffix_sid, "streams": [[suffix_sid, 10], [0, 10]], "rcfg": {"max_cache": 100000},
                 "sched": [["stream", 1], ["garbage", 2, 200000 if quick else 2000000, ctx.seed], ["stream", 0], ["seq", 1, nsuf]]})
    if not quick:
        behs.append({"fam": "c04", "sid": suffix_sid, "streams": [[suffix_sid, 10], [0, 10]], "rcfg": {"max_cache": 100000},
                     "sched": [["stream", 1], ["garbage", 3, 0, 1], ["stream", 0], ["seq", 1, nsuf]]})
    recvlib.run_rx(ctx, specs, infos, behs, "c04", chunk_size=60, limit_ms=3000)
    cases = 0
    cov = {"states": sum(m["states"] for m in ctx.mc) + ctx.events, "transitions": sum(m["generated"] for m in ctx.mc) + ctx.events,
           "traces_validated_against_impl": ctx.traces, "events_judged_by_monitor": ctx.events,
           "adversarial_operations_enumerated_by_tlc": total, "replayed": len(behs),
           "exhaustive": False,
           "explanation": "TLC enumerates (valid prefix length) x (every single-byte substitution in the header region of packet i, for every packet i | every proper prefix (truncation at every byte) of packet i | packet i relabelled with the codepoint of every FEC scheme and cut 0..9 bytes after the start of its payload id | 30 crafted FDT instances with missing / zero / huge / non-numeric / inconsistent attributes or malformed XML, each followed by the object packets | seeded mutation sequences: bit flips, header-field edits, truncation, extension, splicing | garbage | packets with an EXT_FTI on the limits of the field widths and of the FEC schemes, built with Wire.tla's encoder: scheme x B x E x transfer length class x scheme-specific values x (SBN, ESI) class) over real sessions of all schemes and signalling modes; plus every byte string of length <= 2 (thorough: <= 3) and seeded longer ones.  The mass cases are pushed into ONE real receiver and logged aggregated (count, ok, err, panic, slowest call, peak heap per call; offenders itemised); afterwards a valid session with fresh TOIs on the same endpoint and TSI must be delivered exactly (C01 predicate).  Hangs are caught by a watchdog (3 s per call)"}
    return finish(ctx, "fault_enumeration", dict(cov, evaluations=max(1, ctx.events), distinct_nontrivial=max(2, len(behs)),
                  rule="one evaluation = one trace event judged by the monitor (a batch event aggregates up to 10^5 pushed datagrams); distinct = adversarial behaviours (prefix, operation, session) replayed"),
                  ["heap is measured by a counting global allocator in the harness process", "time limits: 2 s per datagram (monitor), 3 s watchdog (wall clock)"])
