from sendercheck import main
