"""C20 - object sources interchangeable."""
from common import *
import senderlib, fdtxml

PLAN = [("S7", 1500, None), ("S7b", 250, None)]


def expand(behs):
    out = []
    for g, b in enumerate(behs):
        for n, src in enumerate(b["srcs"]):
            nb = json.loads(json.dumps(b))
            del nb["srcs"]
            nb["objs"][0]["src"] = src
            nb["cfg"]["grp"] = g
            nb["cfg"]["role"] = "ref" if n == 0 else src
            out.append(nb)
    return out


def main(ctx):
    fams = {}
    for fam, nq, nt in PLAN:
        n = nq if ctx.tier == "quick" else nt
        behs = senderlib.gen(ctx, fam, 0)
        total = len(behs)
        behs = expand(senderlib.sample(behs, n, ctx.seed))
        # groups must stay together and in order inside a chunk: chunk size multiple of the group size
        gs = len(behs) // max(1, len(senderlib.sample(senderlib.gen(ctx, fam, 0), n, ctx.seed)))
        senderlib.run_behaviours(ctx, behs, fam, monitor="Mon_Source", chunk_size=gs * 150)
        # the same traces are also judged by the general sender monitors (C08 structure etc.)
        fams[fam] = {"enumerated_by_tlc": total, "groups_replayed": len(behs) // gs, "behaviours": len(behs),
                     "exhaustive": len(behs) // gs == total}
    senderlib.own_and_panics(ctx, "C20")
    cov = {"states": sum(m["states"] for m in ctx.mc) + ctx.events, "transitions": sum(m["generated"] for m in ctx.mc) + ctx.events,
           "traces_validated_against_impl": ctx.traces, "events_judged_by_monitor": ctx.events, "families": fams,
           "exhaustive": all(f["exhaustive"] for f in fams.values()),
           "explanation": "TLC enumerates every composition of the object length into read sizes (objects of 1..8 bytes, E and B in {1,2}, No-Code and RS, transfer count 1-2, with and without carousel cycles); each is run on the real Sender once from a buffer and once from a scripted stream returning exactly those read sizes (plus file / BufReader / 1-byte / 3-byte reads for larger objects); Mon_Source.tla requires identical packet sequences"}
    return finish(ctx, "model_checking", cov, ["payload equality is compared through MD5 digests computed by the harness"])
