"""Generic driver of the receiver-side property checks C01, C02, C03, C09, C16, C19."""
from common import *
import recvlib, senderlib

# property -> list of (session family, n sessions quick/thorough, channel family, maxn, n behaviours quick/thorough)
PLANS = {
    "C01": [("clean", 220, 2500, "clean", 99, None, None), ("wide", 10, None, "clean", 99, 10, None), ("many", None, None, "clean", 99, 8, None)],
    "C02": [("small", 600, 2000, "boundary", 99, None, None), ("small", 200, 400, "subsets", 13, 5000, 60000), ("small", 120, 240, "dups", 8, 2500, 30000),
            ("car", 40, 200, "subsets", 16, 2500, 30000), ("medium", 40, None, "rloss", 999, 300, 8000), ("many", None, None, "rloss", 999, 40, None)],
    "C03": [("small", 200, 400, "perms", 6, 4000, 60000), ("small", 200, 2000, "corrupt", 99, 3000, 120000),
            ("small", 100, 200, "dups", 8, 1500, 20000), ("car", 30, 120, "perms", 5, 1500, 20000),
            ("medium", 24, 160, "rloss", 999, 200, 5000)],
    "C09": [("small", 200, 800, "writer", 99, 5000, 200000), ("small", 200, 400, "perms", 6, 4000, 60000), ("small", 150, 300, "subsets", 13, 2000, 30000),
            ("small", 150, 600, "corrupt", 99, 1500, 60000), ("car", 60, 300, "join", 99, 800, 40000)],
    "C16": [("car", 160, None, "join", 99, None, None)],
    "C19": [("exp", None, None, "expiry", 99, None, None), ("exp2", None, None, "expiry2", 99, None, None)],
}

# sender families judged by Mon_Sender for the sender-side conjuncts of a receiver-side property
SENDER_SIDE = {"C01": [("S6", None, None), ("S6b", None, None), ("S8", None, None), ("S1", 400, 6000)]}

TEXT = {
    "C01": "clean channel: byte-exact single delivery with metadata",
    "C02": "loss recovery: every subset / multiset of small real sessions",
    "C03": "no silent corruption: permutations, duplicates, corrupted payloads",
    "C09": "object-writer protocol typestate under writer failures and drops",
    "C16": "carousel late join at every packet offset of the first cycle",
    "C19": "FDT expiry judged on the estimated sender clock under skew and delay",
}


def main(ctx):
    plan = PLANS.get(ctx.prop, [])       # also entered for the replay of C04 / C17 violations (no plan of their own here)
    fams = {}
    if getattr(ctx, "replay", None):
        j = json.load(open(ctx.replay))
        v = j["violation"]
        if v.get("behaviour") and not v.get("session") and "ops" in v["behaviour"]:
            # a sender-side conjunct of this property (see SENDER_SIDE)
            return senderlib.replay_one(ctx)
        if not v.get("behaviour") or not v.get("session"):
            print("replay file has no behaviour/session")
            return 2
        b = dict(v["behaviour"])
        if v.get("sessions"):
            # several streams: rebuild the list of sessions and renumber
            sids = sorted(int(k) for k in v["sessions"])
            ren = {s: n for n, s in enumerate(sids)}
            rspecs = [v["sessions"][str(s)] for s in sids]
            b["streams"] = [[ren[x[0]], x[1]] for x in b["streams"]]
            b["sid"] = ren[b["sid"]]
        else:
            rspecs = [v["session"]]
            b["sid"] = 0
        infos = recvlib.session_infos(ctx, rspecs, "replay")
        mon = "Mon_Multi" if ctx.prop == "C18" else "Mon_Receiver"
        recvlib.run_rx(ctx, rspecs, infos, [b], "replay", workers=1, monitor=mon, limit_ms=20000)
        mine = [x for x in ctx.violations if x.get("property") == ctx.prop]
        for x in dedupe_viol(ctx.violations):
            print("%s %s line=%s witness=%s" % (x.get("property"), x.get("what"), x.get("line"), json.dumps(x.get("witness"))[:300]))
        print("replay verdict: %d violation(s) of %s" % (len(mine), ctx.prop))
        ctx.cleanup()
        return 1 if mine else 0
    # design level: the mechanism specification composed with the monitors, every push sequence within the bounds,
    # and the broken variants that the monitors of this property must catch
    recvlib.mc_receiver(ctx, "ok", 5 if ctx.tier == "quick" else 7)
    for variant, expect in recvlib.MC_RX_VARIANTS.get(ctx.prop, []):
        recvlib.mc_receiver(ctx, variant, 5, expect)
    # end to end: Sender.tla -> wire -> channel -> Receiver.tla -> monitors (the properties that span both sides)
    if ctx.prop in recvlib.SYSTEM_VARIANTS:
        recvlib.mc_system(ctx, "ok")
        for variant, expect in recvlib.SYSTEM_VARIANTS[ctx.prop]:
            recvlib.mc_system(ctx, variant, expect)
    # binding evidence: every replayed trace is also checked against the mechanism specification Receiver.tla
    ctx.rx_conformance_spec = "Trace_Receiver"
    for sfam, nsq, nst, cfam, maxn, nbq, nbt in plan:
        ns = nsq if ctx.tier == "quick" else nst
        nb = nbq if ctx.tier == "quick" else nbt
        specs = recvlib.gen_sessions(ctx, sfam)
        total_sessions = len(specs)
        specs = recvlib.sample_sessions(specs, ns, ctx.seed)
        infos = recvlib.session_infos(ctx, specs, sfam)
        if ctx.prop == "C01" and sfam == "clean":
            # the property starts at the sender: the sessions fed to the receiver are themselves sender behaviours and are
            # judged by the sender monitors too (a sender that panics or stops in the middle of the second transfer of a
            # streamed object produces a shorter session, which the receiver-side monitor alone would accept as sent)
            senderlib.run_behaviours(ctx, [json.loads(json.dumps(x)) for x in specs], "clean-sender")
            senderlib.own_and_panics(ctx, ctx.prop)
        behs = recvlib.gen_chan(ctx, cfam, infos, maxn=maxn)
        if cfam == "join":
            behs = recvlib.restrict_join(behs, infos)
        total = len(behs)
        behs = senderlib.sample(behs, nb, ctx.seed)
        label = "%s/%s" % (sfam, cfam)
        # sessions of thousands of packets: one behaviour per monitor run, so that they are judged in parallel
        recvlib.run_rx(ctx, specs, infos, behs, label.replace("/", "-"), **({"chunk_size": 1} if sfam == "wide" else {"chunk_size": 4} if sfam == "many" else {}))
        fams[label] = {"session_shapes_enumerated": total_sessions, "sessions_recorded": len(specs),
                       "schedules_enumerated_by_tlc": total, "replayed": len(behs),
                       "exhaustive_over_recorded_sessions": len(behs) == total}
    # sender-side conjuncts of the property (SenderProps.tla tags them with the property id): what add_object accepts
    # must be transmittable (field widths of the wire format, limits of the FEC schemes) and every packet must carry
    # the parameters of its object
    for fam, nq, nt in SENDER_SIDE.get(ctx.prop, []):
        behs = senderlib.gen(ctx, fam, 0)
        total = len(behs)
        behs = senderlib.sample(behs, nq if ctx.tier == "quick" else nt, ctx.seed)
        senderlib.run_behaviours(ctx, behs, fam)
        fams["sender/" + fam] = {"schedules_enumerated_by_tlc": total, "replayed": len(behs), "exhaustive_over_recorded_sessions": len(behs) == total}
    if ctx.prop in SENDER_SIDE:
        senderlib.own_and_panics(ctx, ctx.prop)
    # a panic / hang of the receiver counts against the property under check
    for v in ctx.violations:
        if v.get("what", "").startswith("receiver-call-did-not-return") or v.get("what") == "receiver-drop-panicked":
            v["property"] = ctx.prop
    cov = {"states": sum(m["states"] for m in ctx.mc) + ctx.events,
           "transitions": sum(m["generated"] for m in ctx.mc) + ctx.events,
           "traces_validated_against_impl": ctx.traces,
           "events_judged_by_monitor": ctx.events,
           "families": fams,
           "exhaustive": all(f["exhaustive_over_recorded_sessions"] for f in fams.values()),
           "explanation": "(1) MC_Receiver: the mechanism specification Receiver.tla composed with the monitors is model-checked for every sequence of pushes (any order, losses, duplicates), a clock jump beyond the FDT expiry and the final drop, over 4 abstract sessions x 10 receiver configurations / writer scripts (no monitor conjunct violated), and deliberately broken variants of the mechanism must trip the monitors of this property; for C01 / C02 / C16 also System.tla: the sender mechanism Sender.tla produces the packets of 7 scenarios (two publication modes, carousel, two transfers, late add, removal in the middle of a transfer, FDT instances of 5 s renewed during a 12 s carousel), a channel (clean, every single loss, every adjacent swap, every duplicate, every late join of the first cycle) feeds Receiver.tla and the monitors judge end to end; (2) sessions are recorded from the real Sender for TLC-enumerated shapes (Gen_Recv.tla, mode sess); TLC then enumerates fault schedules over the recorded packet lists (mode chan); each schedule is replayed into a fresh real MultiReceiver with a scripted writer and every event is judged by the TLA+ monitor ReceiverProps.tla (%s): this is the verdict.  The same traces are checked against the mechanism specification Receiver.tla (Trace_Receiver: callbacks of every call per object, and the containers against the hook snapshot): 'mechanism_conformance' reports matched / drifted / unsupported behaviours (binding evidence, not an alarm)" % TEXT[ctx.prop]}
    return finish(ctx, "model_checking", cov, [
        "decodability is decided in TLA+ from the delivered (SBN, ESI) sets and the Partition.tla structure, using the decode rule the property states",
        "bytes are compared through digests computed by the harness on both sides",
        "FDT XML of the recorded sessions is parsed by expat"])
