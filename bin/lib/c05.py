"""C05 - filesystem writer confinement (PathWalk.tla generates the grammar and judges the recorded effects)."""
import random, concurrent.futures as cf
from common import *
import senderlib


def gen(ctx, maxsegs):
    cfg = ctx.path("gen-path.cfg")
    open(cfg, "w").write('SPECIFICATION Spec\nCONSTANTS Mode = "gen" MaxSegs = %d\nINVARIANT Emit\nCHECK_DEADLOCK FALSE\n' % maxsegs)
    r = tlc(ctx, "PathWalk", cfg=cfg, workers=4, mode="mc", timeout=3000)
    tlc_must_pass(ctx, r, "PathWalk gen")
    ctx.mc.append({"name": "PathWalk[gen,MaxSegs=%d]" % maxsegs, "states": r["distinct"], "generated": r["generated"], "wall_s": r["wall_s"]})
    return r["tagged"].get("REPLAY", [])


def run_chunk(ctx, idx, chunk):
    inp, outp = ctx.path("p-%d.in" % idx), ctx.path("p-%d.out" % idx)
    write_ndjson(inp, chunk)
    harness(["pathfs", "--in", inp, "--out", outp], timeout=3000)
    # carry the generator's classification into the record
    rows = read_ndjson(outp)
    by = {b["beh"]: b for b in chunk}
    for r in rows:
        r["plain"] = by[r["beh"]].get("plain", False)
    write_ndjson(outp, rows)
    cfg = ctx.path("mon-path.cfg")
    if not os.path.exists(cfg):
        open(cfg, "w").write('SPECIFICATION Spec\nCONSTANTS Mode = "mon" MaxSegs = 0\nPOSTCONDITION AllConsumed\nCHECK_DEADLOCK FALSE\n')
    res = tlc(ctx, "PathWalk", cfg=cfg, workers=1, trace=outp, timeout=3000, env={"JAVA_TOOL_OPTIONS": JAVA_OPTS_TRACE + " -Xmx3g"})
    tlc_must_pass(ctx, res, "PathWalk mon chunk %d" % idx)
    os.remove(inp); os.remove(outp)
    return res, len(rows)


def main(ctx):
    build_harness()
    behs = gen(ctx, 3 if ctx.tier == "quick" else 5)
    total = len(behs)
    rnd = random.Random(ctx.seed)
    if ctx.tier == "quick":
        behs = senderlib.sample(behs, 6000, ctx.seed)
    elif len(behs) > 250000:
        behs = senderlib.sample(behs, 250000, ctx.seed)
    # seeded random strings outside the grammar
    alphabet = ["..", ".", "/", "//", "\\", "%2e", "%2f", "%5c", "a", "b:", "file:", "http:", "?", "#", "@ROOT@/outside/victim", " ", "%00", "~", "c:\\"]
    for i in range(1500 if ctx.tier == "quick" else 5000):
        s = "".join(rnd.choice(alphabet) for _ in range(rnd.randint(1, 8)))
        behs.append({"loc": s, "pfx": 0, "segs": [], "outcome": rnd.choice(["complete", "error", "interrupted"]), "plain": False, "random": True})
    for i, b in enumerate(behs):
        b["beh"] = i
    chunks = [behs[i:i + 2500] for i in range(0, len(behs), 2500)]
    n = 0
    with cf.ThreadPoolExecutor(max_workers=10) as ex:
        for res, k in ex.map(lambda ic: run_chunk(ctx, ic[0], ic[1]), list(enumerate(chunks))):
            n += k
            for v in res["viol"]:
                v = dict(v); bid = v.get("beh")
                v["behaviour"] = behs[bid] if isinstance(bid, int) and 0 <= bid < len(behs) else None
                ctx.violations.append(v)
    ctx.samples += [{"location": b["loc"], "outcome": b["outcome"]} for b in behs[:3]]
    cov = {"states": sum(m["states"] for m in ctx.mc) + n, "transitions": sum(m["generated"] for m in ctx.mc) + n,
           "traces_validated_against_impl": n, "grammar_locations_enumerated_by_tlc": total, "replayed": n,
           "exhaustive": ctx.tier == "thorough" and total <= 250000,
           "explanation": "PathWalk.tla enumerates prefix x segments^<=k x outcome {complete, MD5 error, interrupted}; each location is put in a crafted FDT (XML-escaped, so strings the url crate cannot carry are included), delivered with object packets built by flute's own packet builder to a real MultiReceiver with ObjectWriterFSBuilder in a jail directory with canaries at six levels above the destination; the before/after tree diff is judged by PathWalk.tla (mode mon)"}
    return finish(ctx, "model_checking", cov, ["effects outside the jail directory (absolute paths to unrelated places) are only visible through the @ROOT@ segment that points inside the jail",
                                                 "URL parsing itself (third-party url crate) is not modelled"])
