from recvcheck import main
