"""Pre-generates the TLC behaviour families used by the checks (cache under work/cache)."""
import sys, concurrent.futures as cf
from common import *
import senderlib, sendercheck

def main():
    fams = sorted({(f, d) for plan in sendercheck.PLANS.values() for (f, d, _, _) in plan if d <= 5} | {("S7", 0), ("S7b", 0), ("S6", 0), ("S6b", 0), ("S8", 0), ("S3c", 0)})
    ctx = Ctx("WARM", "quick", 1)
    import recvlib
    with cf.ThreadPoolExecutor(max_workers=4) as ex:
        list(ex.map(lambda fd: senderlib.gen(ctx, fd[0], fd[1]), fams))
        list(ex.map(lambda f: recvlib.gen_sessions(ctx, f), ["small", "clean", "car", "exp", "exp2", "mem", "wide", "medium", "many"]))
    # model checking of the mechanism specifications composed with the monitors (cached by the hash of the modules)
    senderlib.mc_sender(ctx, "ok", 6)
    for variant, expect in sorted({x for v in senderlib.MC_VARIANTS.values() for x in v}):
        senderlib.mc_sender(ctx, variant, 6, expect)
    recvlib.mc_receiver(ctx, "ok", 5)
    for variant, expect in sorted({x for v in recvlib.MC_RX_VARIANTS.values() for x in v}):
        recvlib.mc_receiver(ctx, variant, 5, expect)
    recvlib.mc_system(ctx, "ok")
    for variant, expect in sorted({x for v in recvlib.SYSTEM_VARIANTS.values() for x in v}):
        recvlib.mc_system(ctx, variant, expect)
    ctx.cleanup()
    print("warm ok:", fams)
main()
