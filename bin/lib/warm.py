"""Pre-generates the TLC behaviour families used by the checks (cache under work/cache)."""
import sys, concurrent.futures as cf
from common import *
import senderlib, sendercheck

def main():
    fams = sorted({(f, d) for plan in sendercheck.PLANS.values() for (f, d, _, _) in plan if d <= 5} | {("S7", 0), ("S7b", 0)})
    ctx = Ctx("WARM", "quick", 1)
    import recvlib
    with cf.ThreadPoolExecutor(max_workers=4) as ex:
        list(ex.map(lambda fd: senderlib.gen(ctx, fd[0], fd[1]), fams))
        list(ex.map(lambda f: recvlib.gen_sessions(ctx, f), ["small", "clean", "car", "exp", "mem"]))
    ctx.cleanup()
    print("warm ok:", fams)
main()
