"""Independent parsing (expat via xml.etree) of the FDT instances emitted by the sender:
turns `fdtxml` trace events into `fdt` events with an abstract, normalised content."""
import base64, json
import xml.etree.ElementTree as ET

NTP_UNIX = 2208988800
BASE_UNIX = 1735689600  # harness virtual clock base (2025-01-01T00:00:00Z)


def _local(tag):
    return tag.split('}', 1)[1] if '}' in tag else tag


def _attrs(el):
    return {_local(k): v for k, v in el.attrib.items()}


def _int(v, d=-1):
    try:
        n = int(v)
        return n if -2**31 < n < 2**31 else -2
    except Exception:
        return d


def _hex(v):
    """decimal attribute -> lower-case hex string ("" when absent or not a number): wide values never enter TLC as integers"""
    try:
        return "%x" % int(v)
    except Exception:
        return ""


def _oti(a):
    if "FEC-OTI-FEC-Encoding-ID" not in a and "FEC-OTI-Encoding-Symbol-Length" not in a:
        return {"k": "none"}
    o = {"enc": _int(a.get("FEC-OTI-FEC-Encoding-ID")), "inst": _int(a.get("FEC-OTI-FEC-Instance-ID"), 0),
         "B": _int(a.get("FEC-OTI-Maximum-Source-Block-Length")), "E": _int(a.get("FEC-OTI-Encoding-Symbol-Length")),
         "maxn": _int(a.get("FEC-OTI-Max-Number-of-Encoding-Symbols")), "Z": -1, "N": -1, "Al": -1}
    ssi = a.get("FEC-OTI-Scheme-Specific-Info")
    if ssi is not None:
        try:
            raw = base64.b64decode(ssi, validate=True)
            if o["enc"] == 6 and len(raw) == 4:
                o["Z"], o["N"], o["Al"] = raw[0], (raw[1] << 8) | raw[2], raw[3]
            elif o["enc"] == 1 and len(raw) == 4:
                o["Z"], o["N"], o["Al"] = (raw[0] << 8) | raw[1], raw[2], raw[3]
        except Exception:
            o["Z"] = -2
    return o


CENC = {None: 0, "null": 0, "zlib": 1, "deflate": 2, "gzip": 3}


def parse_fdt(xml_text, toi2o, intern):
    """returns the `fdt` event body (without ev/t/id)"""
    try:
        root = ET.fromstring(xml_text.encode("utf-8"))
    except Exception as ex:
        return {"ok": False, "err": str(ex)[:100]}
    if _local(root.tag) != "FDT-Instance":
        return {"ok": False, "err": "root " + _local(root.tag)}
    a = _attrs(root)
    try:
        exp = int(a.get("Expires")) - NTP_UNIX - BASE_UNIX
    except Exception:
        exp = -2**30
    files, groups = [], []
    for ch in root:
        name = _local(ch.tag)
        if name == "Group":
            groups.append(intern(ch.text or ""))
        elif name == "File":
            fa = _attrs(ch)
            cache = ["none", 0]
            fgroups = []
            for sub in ch:
                sn = _local(sub.tag)
                if sn == "Cache-Control":
                    for cc in sub:
                        cn = _local(cc.tag)
                        if cn == "no-cache":
                            cache = ["nocache", 0]
                        elif cn == "max-stale":
                            cache = ["maxstale", 0]
                        elif cn == "Expires":
                            cache = ["expires", _int(int(cc.text) - NTP_UNIX - BASE_UNIX if (cc.text or "").strip().isdigit() else None)]
                elif sn == "Group":
                    fgroups.append(intern(sub.text or ""))
            toi = fa.get("TOI", "")
            files.append({
                "toi": toi, "o": toi2o.get(toi, 0), "loc": intern(fa.get("Content-Location", "")),
                "clen": _int(fa.get("Content-Length")), "tlen": _int(fa.get("Transfer-Length")),
                "clenx": _hex(fa.get("Content-Length")), "tlenx": _hex(fa.get("Transfer-Length")),
                "type": intern(fa.get("Content-Type", "")), "cenc": CENC.get(fa.get("Content-Encoding"), -1),
                "md5": intern(fa.get("Content-MD5", "")), "oti": _oti(fa), "cache": cache,
                "etag": intern(fa.get("File-ETag", "")), "groups": fgroups})
    files.sort(key=lambda f: (f["o"], f["toi"]))
    body = {"ok": True, "exp": exp, "complete": a.get("Complete") in ("true", "1"),
            "full": a.get("FullFDT") in ("true", "1"), "groups": groups, "oti": _oti(a), "files": files}
    body["c"] = json.dumps(body, sort_keys=True)   # canonical content for "same id, same content"
    import hashlib
    body["c"] = hashlib.md5(body["c"].encode()).hexdigest()
    return body


def add_fdtlens(path):
    """adds to every reset event the transfer length of each FDT instance seen in the behaviour (input of the
    mechanism specification, which does not serialise XML)"""
    rows = [json.loads(l) for l in open(path) if l.strip()]
    cur = None
    for e in rows:
        if e["ev"] == "reset":
            cur = e
            e["fdtlens"] = []
        elif e["ev"] == "read" and cur is not None and e.get("p", {}).get("k") == "fdt":
            p = e["p"]
            if p.get("id", -1) >= 0 and isinstance(p.get("fti"), dict) and "L" in p["fti"]:
                if not any(x[0] == p["id"] for x in cur["fdtlens"]):
                    cur["fdtlens"].append([p["id"], p["fti"]["L"]])
    with open(path, "w") as g:
        for e in rows:
            g.write(json.dumps(e, separators=(",", ":")) + "\n")


def postprocess_sender_trace(src, dst):
    """fdtxml -> fdt events; interning of free-text strings; returns stats"""
    table = {}

    def intern(s):
        if s == "":
            return ""
        if s not in table:
            table[s] = "s%d" % (len(table) + 1)
        return table[s]

    toi2o = {}
    n_ev = n_beh = 0
    kinds = {}
    with open(src) as f, open(dst, "w") as g:
        for line in f:
            line = line.strip()
            if not line:
                continue
            e = json.loads(line)
            n_ev += 1
            kinds[e["ev"]] = kinds.get(e["ev"], 0) + 1
            if e["ev"] == "reset":
                n_beh += 1
                toi2o = {}
                table.clear()
                for o in e.get("objs", []):
                    for k in ("loc", "type", "md5", "etag"):
                        o[k] = intern(o[k])
                    o["groups"] = [intern(x) for x in o["groups"]]
                if "cfg" in e:
                    e["cfg"]["groups"] = [intern(x) for x in e["cfg"].get("groups", [])]
            elif e["ev"] == "add" and e.get("res") == "ok":
                toi2o[str(int(e["toix"], 16))] = e["o"]
            elif e["ev"] == "fdtxml":
                body = parse_fdt(e["xml"], toi2o, intern) if not e.get("undecodable") else {"ok": False, "err": "undecodable"}
                e = dict({"ev": "fdt", "t": e["t"], "id": e["id"]}, **body)
            elif e["ev"] == "xmlnow":
                continue
            g.write(json.dumps(e, separators=(",", ":")) + "\n")
    return {"events": n_ev, "behaviours": n_beh, "kinds": kinds}
