from sendercheck import main
