from recvcheck import main
