"""C15 - TOI allocation.  ToiAlloc.tla is model-checked (C15_Inv) and generates every history of
allocate / drop-handle / add-object (with and without reserved handle) / finish-objects operations up
to the depth bound; each is replayed on the real Sender for each TOI width with the initial value mapped
around the wrap point; Mon_Toi.tla and the general sender monitors judge the traces."""
import random
from common import *
import senderlib, fdtxml

WIDTHS = [16, 32, 48, 64, 80, 112]
M = 8


def mc(ctx, start, depth):
    cfg = ctx.path("mc-toi-%d.cfg" % start)
    open(cfg, "w").write("SPECIFICATION Spec\nCONSTANTS M = %d Start = %d MaxLive = 5 Depth = %d NObjs = 3\nINVARIANT C15_Inv\nPROPERTY AbsStep\nVIEW MCView\nCHECK_DEADLOCK FALSE\n" % (M, start, depth))
    r = tlc(ctx, "ToiAlloc", cfg=cfg, workers=8, mode="mc", timeout=1800)
    tlc_must_pass(ctx, r, "MC ToiAlloc start=%d" % start)
    ctx.mc.append({"name": "MC_ToiAlloc[M=%d,start=%d,depth=%d]" % (M, start, depth), "states": r["distinct"], "generated": r["generated"], "wall_s": r["wall_s"]})


def unbounded(ctx):
    """Every width: TLAPS proves the allocator invariant of proofs/ToiAllocProof.tla for all M >= 2 from the loop lemma;
    TLC checks the lemma (and 'first free value in cyclic order') on ToiAlloc!Advance for every M in 2..10, every v and
    every reserved set; mc() checks the refinement ToiAlloc => ToiAllocProof (PROPERTY AbsStep)."""
    import shutil, re as _re
    top = 11 if ctx.tier == "quick" else 17      # M = 2..10 (quick) / 2..16 (thorough)
    for m in range(2, top):
        cfg = ctx.path("adv-%d.cfg" % m)
        open(cfg, "w").write("SPECIFICATION Spec\nCONSTANTS M = %d Start = 1 MaxLive = 1 Depth = 0 NObjs = 1\nINVARIANT AdvLemmaHolds AdvFirstFree\nCHECK_DEADLOCK FALSE\n" % m)
        r = tlc(ctx, "ToiAlloc", cfg=cfg, workers=1, mode="mc", timeout=600)
        tlc_must_pass(ctx, r, "AdvLemma M=%d" % m)
    ctx.mc.append({"name": "AdvLemma[M=2..%d]" % (top - 1), "states": top - 2, "generated": top - 2, "wall_s": 0,
                   "cases": sum((m - 1) * 2 ** (m - 1) for m in range(2, top))})
    pdir = ctx.path("tlaps-toi")
    os.makedirs(pdir, exist_ok=True)
    shutil.copy(os.path.join(SPEC, "proofs", "ToiAllocProof.tla"), pdir)
    t0 = time.time()
    pr = run(["tlapm", "--threads", "4", "--cleanfp", "ToiAllocProof.tla"], cwd=pdir, timeout=900, check=False)
    pout = (pr.stdout or "") + (getattr(pr, "stderr", "") or "")
    mo = _re.search(r"All (\d+) obligations proved", pout)
    if not mo:
        raise ToolError("tlapm did not prove ToiAllocProof.tla:\n" + "\n".join(l for l in pout.splitlines() if "obligation" in l or "ERROR" in l)[:800])
    ctx.notes["tlaps_proof"] = {"module": "spec/proofs/ToiAllocProof.tla", "theorems": ["Safety", "AllocSafe"], "obligations_proved": int(mo.group(1)),
                                "wall_s": round(time.time() - t0, 1),
                                "statement": "for ALL M >= 2 (every TOI width): the value an allocation returns is non-zero, below M and not reserved; "
                                             "assumes the loop lemma (TLC: exhaustive for M = 2..10, thorough tier 2..16) and is linked to ToiAlloc.tla by the action property AbsStep (TLC)"}


def gen(ctx, start, depth):
    cfg = ctx.path("gen-toi-%d.cfg" % start)
    open(cfg, "w").write("SPECIFICATION Spec\nCONSTANTS M = %d Start = %d MaxLive = 5 Depth = %d NObjs = 3\nINVARIANT Emit\nCHECK_DEADLOCK FALSE\n" % (M, start, depth))
    r = tlc(ctx, "ToiAlloc", cfg=cfg, workers=4, mode="mc", timeout=1800)
    tlc_must_pass(ctx, r, "Gen ToiAlloc start=%d" % start)
    ctx.mc.append({"name": "Gen_ToiAlloc[start=%d,depth=%d]" % (start, depth), "states": r["distinct"], "generated": r["generated"], "wall_s": r["wall_s"]})
    return r["tagged"].get("REPLAY", [])


def real_init(start, w):
    if start == -1:
        return None
    return (1 << w) - (M - start) if start >= M // 2 else start


def to_beh(h, w, rnd, hi=0):
    # hi > 0: the configured initial value has bits above the configured width (hi * 2^w + value): the allocator must
    # behave as for the value masked to the width (never TOI 0, never beyond the width)
    init = real_init(h["start"], w)
    if init is not None and hi:
        init += hi << w
    ops = []
    for op in h["ops"]:
        if op[0] == "droptoi" and rnd.random() < 0.3:
            ops.append(["droptoi_t", op[1]])
        else:
            ops.append(op)
    ops += [["publish"], ["drain"]]
    cfg = {"scheme": 0, "E": 1024, "B": 8, "toi_w": w, "queues": [[0, 2]], "sct": False}
    if init is None:
        cfg["toi_init"] = -1
    else:
        cfg["toi_init"] = 1
        cfg["toi_init_hex"] = "%x" % init
    return {"fam": "toi", "cfg": cfg, "objs": [{"clen": 3, "oti": {"scheme": 0, "E": 4, "B": 2, "par": 0, "fti": True}} for _ in range(3)], "ops": ops}


def main(ctx):
    if getattr(ctx, "replay", None):
        return senderlib.replay_one(ctx, monitor="Mon_Toi")
    depth_mc = 12 if ctx.tier == "quick" else 16
    depth_gen = 5 if ctx.tier == "quick" else 7
    rnd = random.Random(ctx.seed)
    behs = []
    total = 0
    unbounded(ctx)
    for start in (0, 1, M - 2, M - 1):
        mc(ctx, start, depth_mc)
        hs = gen(ctx, start, depth_gen)
        total += len(hs)
        if ctx.tier == "quick":
            hs = senderlib.sample(hs, 350, ctx.seed)
        for h in hs:
            if ctx.tier == "quick":
                for w in rnd.sample(WIDTHS, 2):
                    behs.append(to_beh(h, w, rnd, rnd.choice([0, 0, 1, 2, 255]) if w <= 112 else 0))
            else:
                for w in WIDTHS:
                    for hi in (0, 1, 255):
                        behs.append(to_beh(h, w, rnd, hi))
    # random default initial value (toi_initial_value = None)
    hs = gen(ctx, 1, 4)
    for i in range(40 if ctx.tier == "quick" else 200):
        for w in WIDTHS:
            h = dict(rnd.choice(hs)); h["start"] = -1
            behs.append(to_beh(h, w, rnd))
    # a full cycle of the 16-bit TOI space while the handle / the object owning the maximum TOI is live
    full = []
    for keep in ("handle", "object"):
        ops = [["alloc"], ["droptoi", 0]]
        ops += ([["alloc"]] if keep == "handle" else [["add", 1]])
        ops += [["alloc"], ["cycle", 65540], ["add", 2], ["add", 3], ["publish"], ["drain"]]
        full.append({"fam": "toi-full-cycle", "cfg": {"scheme": 0, "E": 1024, "B": 8, "toi_w": 16, "toi_init": 1, "toi_init_hex": "fffe", "queues": [[0, 2]], "sct": False},
                     "objs": [{"clen": 3, "car": ["delay", 100000], "oti": {"scheme": 0, "E": 4, "B": 2, "par": 0, "fti": True}} for _ in range(3)], "ops": ops})
    senderlib.run_behaviours(ctx, behs, "toi", monitor="Mon_Toi", chunk_size=500)
    senderlib.run_behaviours(ctx, [json.loads(json.dumps(b)) for b in behs[: (600 if ctx.tier == "quick" else 6000)]], "toi-wire", monitor="Mon_Sender", chunk_size=500)
    senderlib.run_behaviours(ctx, full, "toi-full-cycle", monitor="Mon_Toi", chunk_size=1, workers=2)
    senderlib.own_and_panics(ctx, "C15")
    for v in ctx.violations:
        if v.get("what") in ("packet-with-toi-of-no-added-object", "fdt-lists-unknown-toi", "fdt-toi-attribute-differs-from-allocated-toi"):
            v["property"] = "C15"
    cov = {"states": sum(m["states"] for m in ctx.mc), "transitions": sum(m["generated"] for m in ctx.mc),
           "traces_validated_against_impl": ctx.traces, "events_judged_by_monitor": ctx.events,
           "histories_enumerated_by_tlc": total, "widths": WIDTHS,
           "exhaustive": ctx.tier == "thorough",
           "explanation": "ToiAlloc.tla (M = 8) is model-checked for C15_Inv from the initial values {0, 1, M-2, M-1}; every operation history of the depth bound is replayed on the real Sender for TOI widths 16..112 with the initial value mapped next to the wrap point (2^w - (M - start)), 30% of the handle drops on another thread, plus the random default initial value, plus a full cycle of the 16-bit TOI space (65 540 allocations) while the handle / the object owning TOI 0xFFFF is live"}
    return finish(ctx, "model_checking", cov, ["TOIs are compared as hexadecimal strings", "an object counts as live while is_added or while a sender session still holds it (hook snapshot)",
                                                 "Send for Sender and Box<Toi> is asserted at compile time in the harness"])
