from sendercheck import main
