from sendercheck import main
