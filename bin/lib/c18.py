"""C18 - multi-session demultiplexing, TSI filtering and listener events.
MultiRecv.tla: mechanism of the TSI filter, model-checked against the history-based statement of the
property, and generator of (a) every sequence of listen operations up to the depth bound, each followed by
a probe of all 8 (endpoint, TSI) keys, (b) every interleaving of 2-3 real sessions.  Mon_Multi.tla judges."""
import random
from common import *
import recvlib, senderlib

STREAMS = [[0, 10], [0, 11], [0, 20], [0, 21], [1, 10], [1, 11], [1, 20], [1, 21]]


def tl(ctx, name, consts, inv, view=None, workers=6):
    cfg = ctx.path("multi-%s.cfg" % name)
    open(cfg, "w").write("SPECIFICATION Spec\nCONSTANTS %s\nINVARIANT %s\n%sCHECK_DEADLOCK FALSE\n" % (consts, inv, ("VIEW %s\n" % view) if view else ""))
    r = tlc(ctx, "MultiRecv", cfg=cfg, workers=workers, mode="mc", timeout=3000)
    tlc_must_pass(ctx, r, "MultiRecv %s" % name)
    ctx.mc.append({"name": "MultiRecv[%s]" % name, "states": r["distinct"], "generated": r["generated"], "wall_s": r["wall_s"]})
    return r["tagged"].get("REPLAY", [])


def session_spec(tsi, nsym):
    return {"cfg": {"scheme": 0, "E": 2048, "B": 8, "tsi": tsi, "queues": [[0, 1]]},
            "objs": [{"clen": 4 * nsym, "oti": {"scheme": 0, "E": 4, "B": 4, "par": 0, "fti": True}}],
            "ops": [["add", 1], ["publish"], ["drain"], ["close"]]}


def main(ctx):
    quick = ctx.tier == "quick"
    tl(ctx, "mc", 'Family = "filter" Depth = %d L1 = 1 L2 = 0 L3 = 0' % (5 if quick else 6), "C18_Filter", view="MCView", workers=8)
    rnd = random.Random(ctx.seed)
    # sessions: TSI 1 and 2 (one object of 2 symbols: FDT + 2 packets + close = 4 packets), a third with TSI 1 again
    specs = [session_spec(1, 2), session_spec(2, 2), session_spec(1, 1)]
    infos = recvlib.session_infos(ctx, specs, "multi")
    lens = [len(i["pkts"]) for i in infos]
    # (a) filter
    hs = tl(ctx, "gen-filter", 'Family = "filter" Depth = %d L1 = 1 L2 = 0 L3 = 0' % (3 if quick else 4), "Emit")
    total_f = len(hs)
    hs = senderlib.sample(hs, 4000 if quick else 60000, ctx.seed)
    behs = []
    for h in hs:
        behs.append({"fam": "filter", "sid": 0, "streams": STREAMS, "rcfg": {"filtering": h["filtering"]}, "sched": h["ops"]})
    # (b) interleavings: distinct TSIs on distinct endpoints, equal TSIs on distinct endpoints, three sessions
    inter = []
    combos = [([0, 1], [10, 21]), ([0, 2], [10, 20]), ([0, 1], [11, 11])]
    if not quick:
        combos.append(([0, 1, 2], [10, 20, 21]))
    total_i = 0
    for sids, eps in combos:
        ls = [lens[s] for s in sids] + [0, 0]
        ms = tl(ctx, "gen-inter-%s" % "".join(map(str, sids)) + "-%d" % eps[1], 'Family = "inter" Depth = 0 L1 = %d L2 = %d L3 = %d' % (ls[0], ls[1], ls[2]), "Emit")
        total_i += len(ms)
        if len(ms) > 3000:
            ms = senderlib.sample(ms, 3000, ctx.seed)
        for mrg in ms:
            variant = rnd.choice(["plain", "plain", "timeout", "dupclose", "closefirst"])
            sched = list(mrg["ops"])
            rc = {"filtering": False}
            streams = [[s, e] for s, e in zip(sids, eps)]
            if variant == "dupclose":
                # the close-session packet of every session arrives a second time after the session was closed
                for si, s_ in enumerate(sids):
                    sched += [["stream", si], ["p", lens[s_]]]
            if variant == "closefirst":
                # a close-session packet is the first and only packet ever seen for another (endpoint, TSI) key
                other = next(e for e in (10, 11, 20, 21) if e not in eps)
                streams = streams + [[sids[0], other]]
                sched = [["stream", len(streams) - 1], ["p", lens[sids[0]]], ["stream", 0]] + sched
            if variant == "timeout":
                # leave the sessions without their close-session packet, let them expire, clean up
                sched = [op for op in sched if not (op[0] == "p" and op[1] == max(ls))]
                rc = {"filtering": False, "sess_to": 0}
                sched += [["sleep", 5], ["c"]]
            # (the end-of-behaviour conjunct "every stream delivers its objects once" is for fam = inter only: the extra key of
            #  closefirst delivers nothing by construction)
            fam = {"timeout": "inter-timeout", "closefirst": "inter-closefirst"}.get(variant, "inter")
            inter.append({"fam": fam, "sid": sids[0], "streams": streams, "rcfg": rc, "sched": sched})
    recvlib.run_rx(ctx, specs, infos, behs, "filter", monitor="Mon_Multi", chunk_size=800)
    recvlib.run_rx(ctx, specs, infos, inter, "inter", monitor="Mon_Multi", chunk_size=800)
    for v in ctx.violations:
        if v.get("what", "").startswith("receiver-call-did-not-return"):
            v["property"] = "C18"
    cov = {"states": sum(m["states"] for m in ctx.mc) + ctx.events, "transitions": sum(m["generated"] for m in ctx.mc) + ctx.events,
           "traces_validated_against_impl": ctx.traces, "events_judged_by_monitor": ctx.events,
           "listen_sequences_enumerated": total_f, "listen_sequences_replayed": len(behs), "interleavings_enumerated": total_i, "interleavings_replayed": len(inter),
           "exhaustive": len(behs) == total_f,
           "explanation": "every sequence of <= d add/remove/add-all/remove-all/set-filtering operations over 2 groups x {source, no source} x 2 TSIs (26 operations, both initial filtering states) followed by one probe packet per (endpoint, TSI) key; every interleaving of 2 (thorough: 3) real sessions with distinct and equal TSIs on distinct endpoints, close-session packet at every relative position, or expiry + cleanup, or every close-session packet duplicated after the close, or a close-session packet as the only packet of another key"}
    return finish(ctx, "model_checking", cov, ["a probe is 'processed' iff the listener sees the session open",
                                                 "the double evaluation of is_expired() in MultiReceiver::cleanup (sub-microsecond race, DESIGN D20) is not reachable by the harness"])
