"""C17 - receiver memory bounded by configuration, not by traffic."""
import random
from common import *
import recvlib, senderlib, recvcheck


def main(ctx):
    if getattr(ctx, "replay", None):
        return recvcheck.main(ctx)
    quick = ctx.tier == "quick"
    specs = recvlib.gen_sessions(ctx, "mem")
    infos = recvlib.session_infos(ctx, specs, "mem")
    behs = recvlib.gen_chan(ctx, "mem", infos)
    total = len(behs)
    behs = senderlib.sample(behs, 1500 if quick else None, ctx.seed)
    recvlib.run_rx(ctx, specs, infos, behs, "mem", chunk_size=150)
    # seeded long runs: many TOIs kept undecodable, many unfinished FDT instance ids
    rnd = random.Random(ctx.seed)
    long_specs, long_behs = [], []
    for k in range(3 if quick else 12):
        nobj = rnd.choice([20, 40])
        long_specs.append({"cfg": {"scheme": 0, "E": 128, "B": 4, "interleave": 2, "queues": [[0, 3]], "mode": rnd.choice(["full", "obt"])},
                           "objs": [{"clen": rnd.choice([30, 100, 400]), "oti": {"scheme": rnd.choice([0, 5]), "E": 16, "B": 3, "par": 1, "fti": rnd.random() < 0.5}} for _ in range(nobj)],
                           "ops": sum([[["add", o + 1], ["publish"]] for o in range(nobj)], []) + [["drain"]]})
    long_infos = recvlib.session_infos(ctx, long_specs, "memlong")
    for i, info in enumerate(long_infos):
        pk = info["pkts"]
        keep = [p["i"] for p in pk if (p["k"] == "fdt" and p["esi"] == 0) or (p["k"] == "obj" and p["esi"] != 0)]
        sched = [["p", x] for x in keep] * (3 if quick else 10) + [["sleep", 5], ["c"]]
        for mc_, me in ((300, 0), (2000, 3)):
            long_behs.append({"fam": "mem", "sid": i, "rcfg": {"max_cache": mc_, "max_err": me, "obj_to": 0, "sess_to": 0, "once": False}, "sched": sched})
    recvlib.run_rx(ctx, long_specs, long_infos, long_behs, "memlong", chunk_size=2, limit_ms=4000)
    # FDT instances that are complete but expired on arrival (receiver clock ahead, with and without sender current time),
    # followed by a cleanup: the expiry family of C19, judged here for its memory conjuncts
    especs = recvlib.gen_sessions(ctx, "exp")
    einfos = recvlib.session_infos(ctx, especs, "exp")
    ebehs = [b for b in recvlib.gen_chan(ctx, "expiry", einfos, maxn=99) if any(op[0] == "c" for op in b["sched"])]
    ebehs = senderlib.sample(ebehs, 600 if quick else None, ctx.seed)
    recvlib.run_rx(ctx, especs, einfos, ebehs, "expiry")
    for v in ctx.violations:
        if v.get("what", "").startswith("receiver-call-did-not-return"):
            v["property"] = "C17"
    cov = {"states": sum(m["states"] for m in ctx.mc) + ctx.events, "transitions": sum(m["generated"] for m in ctx.mc) + ctx.events,
           "traces_validated_against_impl": ctx.traces, "events_judged_by_monitor": ctx.events,
           "schedules_enumerated_by_tlc": total, "replayed": len(behs), "long_runs": len(long_behs),
           "exhaustive": len(behs) == total,
           "explanation": "traffic patterns that keep objects undecodable (no FDT, missing first symbol of every block, only the first packet of every FDT instance, everything) x repetition 1/3/10 x cache limit 100/400/2000 bytes x error-list length 0..2 x object / session time-out elapsed or absent, over real sessions with 2-5 objects (FDT-only and in-band OTI, No-Code and RS) and multi-packet FDT instances; after every call the monitor bounds the bytes really held in the packet cache and in decoded blocks (summed over the real containers by the hook snapshot), the length of the failed-object list, and after a cleanup with all time-outs elapsed requires no object, no unfinished FDT instance, no session and the heap back to its initial level"}
    return finish(ctx, "model_checking", cov, ["cache and block bytes are read from the real containers by the hook snapshot (not from flute's own counters)",
                                                 "time-outs use the monotonic clock: 'elapsed' means time-out 0 and a 5 ms sleep"])
