from recvcheck import main
