from recvcheck import main
