"""Receiver-side pipeline R: real sessions (real Sender) -> TLC-enumerated fault schedules over them ->
real MultiReceiver with scripted writer (harness) -> recorded traces -> TLC monitor validation."""
import json, os, random, time, gzip, hashlib
import concurrent.futures as cf
from common import *
import fdtxml, senderlib


class Interner:
    def __init__(self):
        self.table = {}

    def __call__(self, s):
        if s == "":
            return ""
        if s not in self.table:
            self.table[s] = "s%d" % (len(self.table) + 1)
        return self.table[s]


def gen_sessions(ctx, family):
    return senderlib.gen(ctx, family, 0, module="Gen_Recv", extra_consts='Mode = "sess" MaxN = 13')


def sample_sessions(specs, n, seed):
    """Seeded sample of session shapes, stratified by (content length, FEC scheme) of the first object so that every
    combination of partition shape and scheme is present in a small sample."""
    if n is None or len(specs) <= n:
        return list(specs)
    rnd = random.Random(seed)
    groups = {}
    for sp in specs:
        o = (sp.get("objs") or [{}])[0]
        groups.setdefault((o.get("clen"), (o.get("oti") or {}).get("scheme")), []).append(sp)
    keys = sorted(groups, key=lambda k: (str(k[0]), str(k[1])))
    for k in keys:
        rnd.shuffle(groups[k])
    out, i = [], 0
    while len(out) < n:
        k = keys[i % len(keys)]
        if groups[k]:
            out.append(groups[k].pop())
        i += 1
        if all(not g for g in groups.values()):
            break
    return out


def session_infos(ctx, specs, label):
    """Runs the real sender on every spec; returns the session records (post-processed: FDT XML parsed
    independently, strings interned) used by the TLC generator and by the monitor."""
    build_harness()
    inp = ctx.path("sess-%s.in" % label)
    outp = ctx.path("sess-%s.out" % label)
    with open(inp, "w") as f:
        for s in specs:
            f.write(json.dumps(s, separators=(",", ":")) + "\n")
    harness(["sessions", "--in", inp, "--out", outp], timeout=3000)
    if not hasattr(ctx, "rx_intern"):
        ctx.rx_intern = Interner()
    intern = ctx.rx_intern
    infos = []
    for e in read_ndjson(outp):
        toi2o = {}
        for a in e["adds"]:
            if a["res"] == "ok":
                toi2o[str(int(a["toix"], 16))] = a["o"]
        for o in e.get("objs", []):
            for k in ("loc", "type", "md5", "etag"):
                o[k] = intern(o[k])
            o["groups"] = [intern(x) for x in o["groups"]]
        if "groups" in e.get("cfg", {}):
            e["cfg"]["groups"] = [intern(x) for x in e["cfg"]["groups"]]
        fdts, seen = [], set()
        for x in e.pop("fdtxml"):
            if x["id"] in seen:
                continue
            seen.add(x["id"])
            body = fdtxml.parse_fdt(x["xml"], toi2o, intern) if not x.get("undecodable") else {"ok": False}
            if not body.get("ok"):
                continue
            L = next((p["fl"] for p in e["pkts"] if p["k"] == "fdt" and p["id"] == x["id"]), -1)
            fdts.append({"id": x["id"], "L": L, "exp": body["exp"], "files": [f["o"] for f in body["files"] if f["o"] > 0],
                         "entries": [{"o": f["o"], "cache": f["cache"]} for f in body["files"]]})
        e["fdts"] = fdts
        nobj = len(e.get("objs", []))
        # completed transfers per object: number of B-less... derive from packets: count (sbn 0, esi 0) packets per object
        xf = [0] * nobj
        for p in e["pkts"]:
            if p["k"] == "obj" and 1 <= p["o"] <= nobj and p["sbn"] == 0 and p["esi"] == 0:
                xf[p["o"] - 1] += 1
        e["xfers"] = xf
        e["maxpkt"] = max([p["size"] for p in e["pkts"]] + [0])
        e["accepted"] = [a["o"] for a in e["adds"] if a["res"] == "ok"]
        # rank of the TOI of every object (the registry of failed objects evicts the smallest TOI first)
        tois = {a["o"]: int(a["toix"], 16) for a in e["adds"] if a["res"] == "ok" and a.get("toix")}
        order = sorted(tois, key=lambda o: tois[o])
        e["toinum"] = [(order.index(o + 1) + 1) if (o + 1) in tois else 0 for o in range(nobj)]
        e["cfg"].setdefault("tsi", 1)
        e["cfg"].setdefault("par", 0)
        infos.append(e)
    for p in (inp, outp):
        os.remove(p)
    return infos


def gen_chan(ctx, family, infos, maxn=13, timeout=1800, sel=None):
    """TLC enumerates fault schedules over the given sessions (their abstract packet lists are read by the spec)."""
    sess_file = ctx.path("sess-%s-%d-%d.ndjson" % (family, os.getpid(), next(TLC_SEQ)))
    rows = [i for i in infos if (sel is None or sel(i)) and not i.get("skip")]
    # the generator only needs the packet structure
    write_ndjson(sess_file, [{"sid": i["sid"], "cfg": {"fdt_dur": i["cfg"].get("fdt_dur", 3600)},
                              "objs": [{"L": o["L"], "E": o["E"], "B": o["B"], "par": o["par"], "scheme": o["scheme"]} for o in i.get("objs", [])],
                              "pkts": [{"k": p["k"], "o": p["o"], "id": p["id"], "sbn": p["sbn"], "esi": p["esi"], "t": p["t"]} for p in i["pkts"]]} for i in rows])
    cfg = ctx.path("genchan-%s.cfg" % family)
    with open(cfg, "w") as f:
        f.write('SPECIFICATION Spec\nCONSTANTS Mode = "chan" Family = "%s" MaxN = %d\nINVARIANT Emit\nCHECK_DEADLOCK FALSE\n' % (family, maxn))
    r = tlc(ctx, "Gen_Recv", cfg=cfg, workers=4, mode="mc", timeout=timeout, env={"SESS": sess_file})
    tlc_must_pass(ctx, r, "Gen_Recv(chan,%s)" % family)
    behs = r["tagged"].get("REPLAY", [])
    ctx.mc.append({"name": "Gen_Recv[chan,%s]" % family, "states": r["distinct"], "generated": r["generated"],
                   "behaviours_printed": len(behs), "sessions": len(rows), "wall_s": r["wall_s"]})
    os.remove(sess_file)
    return behs


def _post_rx(raw, tr, sess_rows, intern, fams):
    n_ev = n_beh = 0
    kinds = {}
    with open(tr, "w") as g:
        for s in sess_rows:
            g.write(json.dumps(s, separators=(",", ":")) + "\n")
        with open(raw) as f:
            for line in f:
                line = line.strip()
                if not line:
                    continue
                e = json.loads(line)
                n_ev += 1
                kinds[e["ev"]] = kinds.get(e["ev"], 0) + 1
                if e["ev"] == "reset":
                    n_beh += 1
                    e["fam"] = fams.get(e["beh"], "")
                for cb in e.get("cb", []):
                    mt = cb.get("meta")
                    if mt:
                        for k in ("loc", "type", "md5", "etag"):
                            mt[k] = intern(mt[k])
                        mt["groups"] = [intern(x) for x in mt["groups"]]
                g.write(json.dumps(e, separators=(",", ":")) + "\n")
    return {"events": n_ev, "behaviours": n_beh, "kinds": kinds}


def _one_chunk(ctx, idx, chunk, label, specs_file, infos_by_sid, monitor, limit_ms):
    inp = ctx.path("%s-%d.in" % (label, idx))
    raw = ctx.path("%s-%d.raw" % (label, idx))
    tr = ctx.path("%s-%d.ndjson" % (label, idx))
    with open(inp, "w") as f:
        for b in chunk:
            f.write(json.dumps(b, separators=(",", ":")) + "\n")
    hangs = []
    skip = []
    start = 0
    parts = []
    # the harness exits with 3 when a call exceeds the time limit (watchdog); resume after the hanging behaviour
    for attempt in range(50):
        part = raw + ".%d" % attempt
        p = harness(["replay-receiver", "--sessions", specs_file, "--in", inp, "--out", part, "--limit_ms", limit_ms,
                     "--skip", ",".join(map(str, skip)), "--from", start], timeout=3000, check=False)
        parts.append(part)
        if p.returncode == 0:
            break
        if p.returncode == 3 and os.path.exists(part + ".timeout"):
            t = json.load(open(part + ".timeout"))
            os.remove(part + ".timeout")
            hangs.append(t)
            skip.append(t["beh"])
            # resume from the hanging behaviour (it is skipped); keep complete behaviours of this part
            pos = next(i for i, b in enumerate(chunk) if b["beh"] == t["beh"])
            start = pos
            continue
        raise ToolError("replay-receiver failed (%d): %s" % (p.returncode, p.stderr[-2000:]))
    # merge parts: drop the truncated tail of a part that ended in a hang
    with open(raw, "w") as g:
        for pi, part in enumerate(parts):
            lines = open(part).read().splitlines()
            if pi < len(parts) - 1:
                hb = hangs[pi]["beh"]
                # cut everything from the reset of the hanging behaviour
                cut = len(lines)
                for i, ln in enumerate(lines):
                    if ln.startswith('{"beh":%d,' % hb) and '"ev":"reset"' in ln and '"skip"' not in ln:
                        cut = i
                        break
                    try:
                        j = json.loads(ln)
                    except Exception:
                        cut = i
                        break
                    if j.get("ev") == "reset" and j.get("beh") == hb and "skip" not in j:
                        cut = i
                        break
                lines = lines[:cut]
            for ln in lines:
                try:
                    json.loads(ln)
                except Exception:
                    continue
                g.write(ln + "\n")
            os.remove(part)
    used = sorted({s for b in chunk for s in ([x[0] for x in b["streams"]] if "streams" in b else [b.get("sid", 0)])})
    intern = Interner()
    # sessions were interned globally when built; metadata strings of callbacks must use the same table
    intern.table = dict(ctx.rx_intern.table)
    fams = {b["beh"]: b.get("fam", "") for b in chunk}
    stats = _post_rx(raw, tr, [infos_by_sid[s] for s in used if s in infos_by_sid], intern, fams)
    res = tlc(ctx, monitor, workers=1, trace=tr, timeout=900, env={"JAVA_TOOL_OPTIONS": JAVA_OPTS_TRACE + " -Xmx4g"})
    tlc_must_pass(ctx, res, "%s on %s chunk %d" % (monitor, label, idx))
    if getattr(ctx, "rx_conformance_spec", None) and monitor == "Mon_Receiver":
        # binding evidence: the same trace against the mechanism specification Receiver.tla
        cres = tlc(ctx, ctx.rx_conformance_spec, workers=1, trace=tr, timeout=900, env={"JAVA_TOOL_OPTIONS": JAVA_OPTS_TRACE + " -Xmx4g"})
        conf = {"ok": cres["ok"], "match": len(cres["tagged"].get("MATCH", [])), "unsupported": len(cres["tagged"].get("UNSUPPORTED", [])),
                "drift": cres["tagged"].get("DRIFT", []), "why": {}}
        for u in cres["tagged"].get("UNSUPPORTED", []):
            w = u.get("why", "?") if isinstance(u, dict) else "?"
            conf["why"][w] = conf["why"].get(w, 0) + 1
        if not cres["ok"]:
            conf["error"] = "\n".join(l for l in cres["stdout"].splitlines() if "rror" in l or "Attempted" in l)[:600]
        stats["conf"] = conf
    if os.environ.get("VERIF_KEEP_WORK") != "1":
        for p in (inp, raw, tr):
            os.remove(p)
    return res, stats, hangs


def run_rx(ctx, specs, infos, behs, label, monitor="Mon_Receiver", chunk_size=400, workers=10, limit_ms=3000):
    build_harness()
    for i, b in enumerate(behs):
        b["beh"] = i
    specs_file = ctx.path("specs-%s.json" % label)
    with open(specs_file, "w") as f:
        for s in specs:
            f.write(json.dumps(s, separators=(",", ":")) + "\n")
    infos_by_sid = {i["sid"]: i for i in infos}
    # strings in session infos were interned by session_infos with its own table: rebuild it
    if not hasattr(ctx, "rx_intern"):
        ctx.rx_intern = Interner()
    # sort by session so that a chunk needs few sessions
    order = sorted(range(len(behs)), key=lambda i: (behs[i].get("sid", 0), i))
    sb = [behs[i] for i in order]
    chunks = [sb[i:i + chunk_size] for i in range(0, len(sb), chunk_size)]
    tot = {"events": 0, "behaviours": 0, "kinds": {}, "hangs": 0}
    t = time.time()
    with cf.ThreadPoolExecutor(max_workers=workers) as ex:
        futs = [ex.submit(_one_chunk, ctx, i, c, label, specs_file, infos_by_sid, monitor, limit_ms) for i, c in enumerate(chunks)]
        for fu in futs:
            res, stats, hangs = fu.result()
            tot["events"] += stats["events"]
            tot["behaviours"] += stats["behaviours"]
            tot["hangs"] += len(hangs)
            for k, v in stats["kinds"].items():
                tot["kinds"][k] = tot["kinds"].get(k, 0) + v
            if stats.get("conf"):
                c = ctx.conformance.setdefault(label, {"matched": 0, "unsupported": 0, "drifted": 0, "first_drifts": [], "errors": []})
                c["matched"] += stats["conf"]["match"]
                c["unsupported"] += stats["conf"]["unsupported"]
                c["drifted"] += len(stats["conf"]["drift"])
                for w, n in stats["conf"]["why"].items():
                    c.setdefault("unsupported_why", {})
                    c["unsupported_why"][w] = c["unsupported_why"].get(w, 0) + n
                for d in stats["conf"]["drift"][:3]:
                    if len(c["first_drifts"]) < 5:
                        dd = dict(d) if isinstance(d, dict) else {"raw": str(d)[:300]}
                        b = behs[dd["beh"]] if isinstance(dd.get("beh"), int) and 0 <= dd["beh"] < len(behs) else None
                        dd["behaviour"] = b
                        dd["session"] = specs[b.get("sid", 0)] if b else None
                        c["first_drifts"].append(dd)
                if stats["conf"].get("error"):
                    c["errors"].append(stats["conf"]["error"])
            for h in hangs:
                ctx.violations.append({"property": "C04", "what": "receiver-call-did-not-return-in-bounded-time", "beh": h["beh"],
                                       "line": h["op"], "witness": h, "behaviour": behs[h["beh"]] if 0 <= h["beh"] < len(behs) else None,
                                       "session": specs[behs[h["beh"]].get("sid", 0)] if 0 <= h["beh"] < len(behs) else None,
                                       "sessions": {str(x[0]): specs[x[0]] for x in behs[h["beh"]].get("streams", [])} if 0 <= h["beh"] < len(behs) else {}, "source": label})
            for st in res["tagged"].get("STAT", []):
                if isinstance(st, dict):
                    for k_ in ("acc", "rec", "del", "fail"):
                        tot.setdefault("objects_" + k_, 0)
                        tot["objects_" + k_] += st.get(k_, 0)
            for v in res["viol"]:
                v = dict(v)
                bid = v.get("beh")
                b = behs[bid] if isinstance(bid, int) and 0 <= bid < len(behs) else None
                v["behaviour"] = b
                v["session"] = specs[b.get("sid", 0)] if b and b.get("sid", 0) < len(specs) else None
                v["sessions"] = {str(x[0]): specs[x[0]] for x in b.get("streams", [])} if b else {}
                v["source"] = label
                ctx.violations.append(v)
    if behs and len(ctx.samples) < 3:
        ctx.samples.append({"family": label, "session": specs[behs[0].get("sid", 0)], "schedule": behs[0]})
    ctx.traces += tot["behaviours"]
    ctx.events += tot["events"]
    ctx.notes.setdefault("replay", {})[label] = dict(tot, wall_s=round(time.time() - t, 1))
    log("%s: %d behaviours, %d events, %d hangs, %.1fs" % (label, tot["behaviours"], tot["events"], tot["hangs"], time.time() - t))
    os.remove(specs_file)
    return tot


def restrict_join(behs, infos):
    """Late join (C16): keep the join offsets inside the first carousel cycle of the session and cut the
    schedule at the end of the second full cycle after it (the sessions poll the sender at instants
    c0 < c1 < c2 < ...; a cycle is what the sender emits at one instant)."""
    by = {i["sid"]: i for i in infos}
    out = []
    for b in behs:
        info = by.get(b["sid"])
        if not info or not info["pkts"]:
            continue
        ts = sorted({p["t"] for p in info["pkts"]})
        if len(ts) < 3:
            continue
        j = b["join"]
        if info["pkts"][j - 1]["t"] != ts[0]:
            continue
        # "within two further full cycles of the objects and the FDT": up to the end of the poll in which the
        # FDT starts its second transmission after the join (the FDT may be repeated less often than the objects)
        fstarts = sorted({p["t"] for p in info["pkts"] if p["k"] == "fdt" and p["sbn"] == 0 and p["esi"] == 0 and p["i"] > j})
        tlim = max(ts[2], fstarts[1]) if len(fstarts) >= 2 else ts[-1]
        limit = max(p["i"] for p in info["pkts"] if p["t"] <= tlim)
        nb = dict(b)
        nb["sched"] = [["seq", j, limit]]
        nb["limit"] = limit
        out.append(nb)
    return out


# --------------------------------------------------------------------------------------------
# model checking of the mechanism specification Receiver.tla composed with the monitors (cached: depends on the spec only)

MC_RX_VARIANTS = {
    "C01": [("once-ignored", "clean-channel-object-not-delivered-exactly")],
    "C02": [("rs-needs-all-source-symbols", "recoverable-object-not-delivered")],
    "C03": [("complete-one-symbol-early", "complete-but-bytes-differ-from-the-sender-object")],
    "C09": [("no-terminal-call-at-drop", "opened-writer-without-terminal-call-at-drop"),
            ("failed-write-ignored", "complete-but-not-exactly-the-announced-content-written"),
            ("error-after-complete", "terminal-call-before-open-or-second-terminal")],
    "C16": [],
    "C19": [("expiry-ignored", "delivery-started-through-expired-fdt")],
}


def _mc_rx_hash():
    import hashlib
    h = hashlib.md5()
    for fn in ("Receiver.tla", "ReceiverProps.tla", "MC_Receiver.tla", "Partition.tla", "PartitionCore.tla", "VCommon.tla"):
        h.update(open(os.path.join(SPEC, fn), "rb").read())
    return h.hexdigest()[:12]


def mc_receiver(ctx, variant, maxpush, expect=None):
    """Runs MC_Receiver (mechanism + monitors).  variant "ok": must complete without violation.
    Otherwise the run must report the conjunct `expect` (vacuity guard of the monitors)."""
    import re
    cdir = os.path.join(VERIF, "work", "cache")
    os.makedirs(cdir, exist_ok=True)
    cpath = os.path.join(cdir, "mc-receiver-%s-%d-%s.json" % (variant, maxpush, _mc_rx_hash()))
    if os.path.exists(cpath):
        j = json.load(open(cpath))
        j["cached"] = True
    else:
        cfg = ctx.path("mcr-%s.cfg" % variant)
        open(cfg, "w").write('SPECIFICATION Spec\nCONSTANTS MaxPush = %d Variant = "%s" SessSet = {1, 2, 3, 4} CfgSet = {1, 2, 3, 4, 5, 6, 7, 8, 9, 10}\n'
                             'INVARIANT ShowBad NoViolation\nVIEW MCView\nCHECK_DEADLOCK FALSE\n' % (maxpush, variant))
        r = tlc(ctx, "MC_Receiver", cfg=cfg, workers=8, mode="mc", timeout=3000)
        bads = set()
        for m_ in re.finditer(r'<<\s*"BAD",(.*?)>>\s*>>', r["stdout"], re.S):
            bads.update(re.findall(r'"([a-z][a-z0-9-]+)"', m_.group(1)))
        j = {"name": "MC_Receiver[variant=%s,MaxPush=%d,4 sessions x 10 configurations]" % (variant, maxpush), "states": r["distinct"],
             "generated": r["generated"], "wall_s": r["wall_s"], "completed_without_violation": r["ok"], "reported": sorted(bads)}
        if not r["ok"] and not bads:
            raise ToolError("MC_Receiver[%s] failed without a monitor report:\n%s" % (variant, "\n".join(
                l for l in r["stdout"].splitlines() if "rror" in l or "Attempted" in l or "exception" in l)[:800]))
        if (variant == "ok" and r["ok"]) or (variant != "ok" and not r["ok"]):
            json.dump(j, open(cpath, "w"))
    ctx.mc.append(j)
    if variant == "ok":
        if not j["completed_without_violation"]:
            ctx.notes["mc_receiver_design_counterexample"] = j["reported"]
    else:
        j["expected"] = expect
        j["monitor_not_vacuous"] = (not j["completed_without_violation"]) and (expect in j["reported"])
        if not j["monitor_not_vacuous"]:
            raise ToolError("self-test failed: broken mechanism variant %s did not make the monitor report %s (reported %s)" % (variant, expect, j["reported"]))
    return j


# --------------------------------------------------------------------------------------------
# end-to-end composition System.tla: Sender.tla -> wire -> channel -> Receiver.tla -> monitors

SYSTEM_VARIANTS = {
    "C01": [("once-ignored", "clean-channel-object-not-delivered-exactly")],
    # (a close-object flag at every block end, a rule of the SENDER mechanism, is first seen by a lossy channel)
    "C02": [("rs-needs-all-source-symbols", "recoverable-object-not-delivered"), ("b-every-block", "recoverable-object-not-delivered")],
    "C16": [("no-flush-at-attach", "late-joiner-did-not-get-a-carouselled-object")],
}


def _sys_hash():
    import hashlib
    h = hashlib.md5()
    for fn in ("System.tla", "Sender.tla", "Receiver.tla", "ReceiverProps.tla", "Partition.tla", "PartitionCore.tla", "VCommon.tla"):
        h.update(open(os.path.join(SPEC, fn), "rb").read())
    return h.hexdigest()[:12]


def mc_system(ctx, variant, expect=None):
    """Runs System.tla (both mechanisms composed end to end, monitors as invariant)."""
    import re
    cdir = os.path.join(VERIF, "work", "cache")
    os.makedirs(cdir, exist_ok=True)
    cpath = os.path.join(cdir, "mc-system-%s-%s.json" % (variant, _sys_hash()))
    if os.path.exists(cpath):
        j = json.load(open(cpath))
        j["cached"] = True
    else:
        cfg = ctx.path("sys-%s.cfg" % variant)
        open(cfg, "w").write('SPECIFICATION Spec\nCONSTANTS ScenSet = {1, 2, 3, 4, 5, 6, 7} Variant = "%s"\nINVARIANT ShowBad NoViolation%s\nCHECK_DEADLOCK FALSE\n'
                             % (variant, " Delivered" if variant == "ok" else ""))
        r = tlc(ctx, "System", cfg=cfg, workers=1 if variant == "ok" else 4, mode="mc", timeout=1800)
        bads = set()
        for b_ in r["tagged"].get("BAD", []):
            if isinstance(b_, dict):
                bads.update(b_.get("conjuncts", []))
        e2e = {}
        for m_ in re.finditer(r'<<"E2E", (\d+), "([a-z]+)", <<([0-9, ]*)>>>>', r["stdout"]):
            key = "scenario %s / %s" % (m_.group(1), m_.group(2))
            d = e2e.setdefault(key, {"channels": 0, "objects_delivered": 0, "objects": 0})
            vals = [int(x) for x in m_.group(3).split(",") if x.strip()]
            d["channels"] += 1
            d["objects"] += len(vals)
            d["objects_delivered"] += sum(1 for v in vals if v >= 1)
        j = {"name": "System[variant=%s, 7 scenarios x clean / every single loss / swap / duplicate / late join]" % variant, "states": r["distinct"],
             "generated": r["generated"], "wall_s": r["wall_s"], "completed_without_violation": r["ok"], "reported": sorted(bads)}
        if e2e:
            j["end_to_end_deliveries"] = e2e
        if not r["ok"] and not bads:
            raise ToolError("System[%s] failed without a monitor report:\n%s" % (variant, "\n".join(
                l for l in r["stdout"].splitlines() if "rror" in l or "Attempted" in l or "exception" in l)[:800]))
        if (variant == "ok" and r["ok"]) or (variant != "ok" and not r["ok"]):
            json.dump(j, open(cpath, "w"))
    ctx.mc.append(j)
    if variant == "ok":
        if not j["completed_without_violation"]:
            ctx.notes["system_design_counterexample"] = j["reported"]
    else:
        j["expected"] = expect
        j["monitor_not_vacuous"] = (not j["completed_without_violation"]) and (expect in j["reported"])
        if not j["monitor_not_vacuous"]:
            raise ToolError("self-test failed: broken variant %s of System.tla did not make the monitor report %s (reported %s)" % (variant, expect, j["reported"]))
    return j
