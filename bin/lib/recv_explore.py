import sys, json, collections
from common import *
import recvlib, senderlib

def main():
    sfam, cfam, nsess, n = sys.argv[1], sys.argv[2], int(sys.argv[3]), int(sys.argv[4])
    maxn = int(sys.argv[5]) if len(sys.argv) > 5 else 13
    ctx = Ctx("CXX", "quick", 1)
    ctx.rx_conformance_spec = "Trace_Receiver"
    specs = recvlib.gen_sessions(ctx, sfam)
    specs = senderlib.sample(specs, nsess, 1)
    infos = recvlib.session_infos(ctx, specs, sfam)
    print("sessions:", len(infos), "pkts:", collections.Counter(len(i["pkts"]) for i in infos).most_common(8))
    behs = recvlib.gen_chan(ctx, cfam, infos, maxn=maxn)
    if cfam == "join":
        behs = recvlib.restrict_join(behs, infos)
    print("schedules:", len(behs))
    behs = senderlib.sample(behs, n, 1)
    recvlib.run_rx(ctx, specs, infos, behs, cfam)
    c = collections.Counter((v["property"], v["what"]) for v in ctx.violations)
    for k, v in sorted(c.items()):
        exs = [x for x in ctx.violations if (x["property"], x["what"]) == k]
        ex = exs[0]
        cc = collections.Counter((x["session"]["objs"][0].get("oti", {}).get("scheme"), x["session"]["objs"][0].get("clen"), x["session"]["objs"][0].get("oti", {}).get("fti")) for x in exs if x.get("session"))
        print(v, k, "witness", json.dumps(ex["witness"])[:300])
        print("     by (scheme,clen,fti):", dict(cc.most_common(12)))
        if ex.get("session"):
            print("     sess:", json.dumps({"cfg": {k2: ex["session"]["cfg"][k2] for k2 in ex["session"]["cfg"] if k2 not in ("E", "B", "scheme", "queues")}, "objs": ex["session"]["objs"]})[:600])
        print("     beh:", json.dumps({k2: ex["behaviour"][k2] for k2 in ex["behaviour"] if k2 != "fam"})[:400])
    print(ctx.notes)
    for lab, c in ctx.conformance.items():
        print("CONFORMANCE", lab, {k: c[k] for k in ("matched", "unsupported", "drifted")}, c.get("unsupported_why"), c["errors"][:1])
        for d in c["first_drifts"][:4]:
            print("  DRIFT", json.dumps({k: d[k] for k in d if k not in ("behaviour", "session")})[:1500])
            if d.get("behaviour"):
                print("     beh:", json.dumps(d["behaviour"])[:400])
                print("     sess:", json.dumps(d["session"])[:500])
    ctx.cleanup()
main()
