from recvcheck import main
