"""Generic driver of the sender-side property checks C08, C10-C14."""
from common import *
import senderlib

# property -> list of (family, depth, n_quick, n_thorough)   (None = every generated behaviour)
PLANS = {
    "C08": [("S1", 0, 3000, None), ("S10", 0, None, None), ("S5", 0, 800, 5000), ("S2", 5, 500, 3000)],
    "C10": [("S4", 0, 1500, None), ("S4x", 0, None, None), ("S1", 0, 600, 6000), ("S2", 5, 400, 3000)],
    "C11": [("S2", 5, 3000, None), ("S2", 6, 0, 30000), ("S5", 0, 1500, None), ("S1", 0, 500, 5000)],
    "C12": [("S1", 0, 3000, 60000), ("S2", 5, 1500, None), ("S3", 0, 800, 8000), ("S5", 0, 500, 4000), ("S9", 0, None, None)],
    "C13": [("S5", 0, 3000, None), ("S2", 5, 1500, None), ("S1", 0, 500, 5000)],
    "C14": [("S3", 0, 3500, None), ("S1", 0, 500, 5000), ("S2", 5, 500, 3000), ("S9", 0, 300, None), ("S3c", 0, None, None)],
}

TEXT = {
    "C08": "per-transfer symbol discipline, RFC slices, close-object / close-session flags",
    "C10": "FDT instance content, XML, ids, expiry",
    "C11": "announce before send",
    "C12": "transfer lifecycle, removal semantics, read termination",
    "C13": "strict priority, multiplex bound, FIFO start, round-robin, interleave window",
    "C14": "start times, carousel gaps, pacing, degenerate inputs",
}


def main(ctx):
    if getattr(ctx, "replay", None):
        return senderlib.replay_one(ctx)
    plan = PLANS[ctx.prop]
    fams = {}
    # 1. design level: the mechanism specification composed with the monitors, exhaustively within the bounds,
    #    and the broken variants that the monitors of this property must catch
    senderlib.mc_sender(ctx, "ok", 6 if ctx.tier == "quick" else 8)
    for variant, expect in senderlib.MC_VARIANTS[ctx.prop]:
        senderlib.mc_sender(ctx, variant, 6, expect)
    # 2. + 3. replay on the real Sender, verdict by the monitors, binding evidence by Trace_Sender
    ctx.conformance_spec = "Trace_Sender"
    for fam, depth, nq, nt in plan:
        n = nq if ctx.tier == "quick" else nt
        if n == 0:
            continue
        behs = senderlib.gen(ctx, fam, depth)
        total = len(behs)
        behs = senderlib.sample(behs, n, ctx.seed)
        label = "%s%s" % (fam, ("d%d" % depth) if depth else "")
        senderlib.run_behaviours(ctx, behs, label)
        fams[label] = {"enumerated_by_tlc": total, "replayed": len(behs), "exhaustive": len(behs) == total}
    senderlib.own_and_panics(ctx, ctx.prop)
    nviol_checks = ctx.events
    ctx.conformance_spec = None
    cov = {"states": sum(m["states"] for m in ctx.mc) + ctx.events,
           "transitions": sum(m["generated"] for m in ctx.mc) + ctx.events,
           "traces_validated_against_impl": ctx.traces,
           "events_judged_by_monitor": ctx.events,
           "families": fams,
           "exhaustive": all(f["exhaustive"] for f in fams.values()),
           "explanation": "(1) MC_Sender: the mechanism specification Sender.tla composed with the monitors is model-checked for every interleaving of add / publish / remove / advance / read / drain within the bounds (no monitor conjunct violated), and deliberately broken variants of the mechanism must trip the monitors of this property; (2) behaviours enumerated by TLC from Gen_Sender.tla (%s) are replayed on the real Sender with a virtual clock and every recorded event is judged by the TLA+ monitor SenderProps.tla (Mon_Sender): this is the verdict; (3) the same traces are checked against the mechanism specification (Trace_Sender): 'mechanism_conformance' reports matched / drifted behaviours (binding evidence, not an alarm).  'states' counts MC, generator and monitor states (one per event)" % TEXT[ctx.prop]}
    return finish(ctx, "model_checking", cov, [
        "packets are decoded by the harness's own RFC decoder (rfcdec), FDT XML by expat",
        "the timing of automatic FDT publications is read from the hook snapshot (next FDT id)",
        "block structure is derived in TLA+ by Partition.tla from (L, E, B), never taken from flute"])
