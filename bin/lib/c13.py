from sendercheck import main
