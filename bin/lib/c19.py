from recvcheck import main
