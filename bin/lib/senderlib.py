"""Sender-side pipeline S: TLC-generated behaviours -> real Sender (harness) -> recorded traces ->
independent FDT XML parsing -> TLC monitor validation (Mon_Sender)."""
import json, os, random, time
import concurrent.futures as cf
from common import *
import fdtxml

SENDER_PROPS = ["C08", "C10", "C11", "C12", "C13", "C14"]


def _spec_hash(module):
    import hashlib
    h = hashlib.md5()
    for fn in sorted(os.listdir(SPEC)):
        if fn.endswith(".tla") and (fn.startswith("Partition") or fn == module + ".tla"):
            h.update(open(os.path.join(SPEC, fn), "rb").read())
    return h.hexdigest()[:12]


def gen(ctx, family, depth=0, timeout=900, module="Gen_Sender", extra_consts=""):
    """Run the TLA+ generator; returns the list of behaviours (dicts).  The printed behaviours depend on the
    specification only (not on /repo), so they are cached under work/cache keyed by the hash of the spec text."""
    import gzip, hashlib
    cdir = os.path.join(VERIF, "work", "cache")
    os.makedirs(cdir, exist_ok=True)
    key = "%s-%s-%d-%s-%s" % (module, family, depth, hashlib.md5(extra_consts.encode()).hexdigest()[:6], _spec_hash(module))
    cpath = os.path.join(cdir, key + ".json.gz")
    if os.path.exists(cpath):
        try:
            with gzip.open(cpath, "rt") as f:
                j = json.load(f)
            ctx.mc.append(dict(j["mc"], cached=True))
            return j["behs"]
        except Exception:
            pass
    cfg = ctx.path("gen-%s-%d.cfg" % (family, depth))
    with open(cfg, "w") as f:
        f.write('SPECIFICATION Spec\nCONSTANTS Family = "%s" Depth = %d %s\nINVARIANT Emit\nCHECK_DEADLOCK FALSE\n' % (family, depth, extra_consts))
    r = tlc(ctx, module, cfg=cfg, workers=4, mode="mc", timeout=timeout)
    tlc_must_pass(ctx, r, "%s(%s)" % (module, family))
    behs = r["tagged"].get("REPLAY", [])
    mc = {"name": "%s[%s,depth=%d]" % (module, family, depth), "states": r["distinct"], "generated": r["generated"],
          "behaviours_printed": len(behs), "wall_s": r["wall_s"]}
    ctx.mc.append(mc)
    tmp = cpath + ".%d.tmp" % os.getpid()
    with gzip.open(tmp, "wt", compresslevel=1) as f:
        json.dump({"mc": mc, "behs": behs}, f)
    os.replace(tmp, cpath)
    return behs


SENDER_LIMIT_MS = int(os.environ.get("VERIF_SENDER_LIMIT_MS", "120000"))


def sample(behs, n, seed):
    if n is None or len(behs) <= n:
        return list(behs)
    rnd = random.Random(seed)
    return rnd.sample(behs, n)


def _one_chunk(ctx, idx, chunk, label, monitor, harness_cmd, post):
    inp = ctx.path("%s-%d.in" % (label, idx))
    raw = ctx.path("%s-%d.raw" % (label, idx))
    tr = ctx.path("%s-%d.ndjson" % (label, idx))
    with open(inp, "w") as f:
        for b in chunk:
            f.write(json.dumps(b, separators=(",", ":")) + "\n")
    hangs = []
    if harness_cmd != "replay-sender":
        harness([harness_cmd, "--in", inp, "--out", raw], timeout=3000)
    else:
        # the harness exits with 3 when one behaviour exceeds the time limit (watchdog): keep the finished behaviours,
        # report the hanging one and resume after it
        start, parts = 0, []
        for attempt in range(20):
            part = raw + ".%d" % attempt
            p = harness([harness_cmd, "--in", inp, "--out", part, "--from", start, "--limit_ms", SENDER_LIMIT_MS], timeout=3000, check=False)
            lines = open(part).read().splitlines() if os.path.exists(part) else []
            if os.path.exists(part):
                os.remove(part)
            if p.returncode == 0:
                parts.append(lines)
                break
            if p.returncode == 3 and os.path.exists(part + ".timeout"):
                t = json.load(open(part + ".timeout"))
                os.remove(part + ".timeout")
                hangs.append(t)
                cut = len(lines)
                for i, ln in enumerate(lines):
                    try:
                        j = json.loads(ln)
                    except Exception:
                        cut = i
                        break
                    if j.get("ev") == "reset" and j.get("beh") == t["beh"]:
                        cut = i
                        break
                parts.append(lines[:cut])
                start = next(i for i, b in enumerate(chunk) if b["beh"] == t["beh"]) + 1
                continue
            raise ToolError("replay-sender failed (%d): %s" % (p.returncode, p.stderr[-2000:]))
        with open(raw, "w") as g:
            for lines in parts:
                for ln in lines:
                    g.write(ln + "\n")
    stats = post(raw, tr)
    stats["hangs"] = hangs
    res = tlc(ctx, monitor, workers=1, trace=tr, timeout=900, env={"JAVA_TOOL_OPTIONS": JAVA_OPTS_TRACE + " -Xmx3g"})
    tlc_must_pass(ctx, res, "%s on %s chunk %d" % (monitor, label, idx))
    conf = None
    if getattr(ctx, "conformance_spec", None):
        fdtxml.add_fdtlens(tr)
        cres = tlc(ctx, ctx.conformance_spec, workers=1, trace=tr, timeout=900, env={"JAVA_TOOL_OPTIONS": JAVA_OPTS_TRACE + " -Xmx3g"})
        conf = {"ok": cres["ok"], "match": len(cres["tagged"].get("MATCH", [])), "unsupported": len(cres["tagged"].get("UNSUPPORTED", [])),
                "drift": cres["tagged"].get("DRIFT", [])}
        if not cres["ok"]:
            conf["error"] = "\n".join(l for l in cres["stdout"].splitlines() if "rror" in l or "Attempted" in l)[:600]
    sample_lines = []
    with open(tr) as f:
        for i, line in enumerate(f):
            if i >= 6:
                break
            sample_lines.append(json.loads(line))
    for p in (inp, raw, tr):
        if os.environ.get("VERIF_KEEP_WORK") != "1":
            os.remove(p)
    stats["conf"] = conf
    return res, stats, sample_lines


def run_behaviours(ctx, behs, label, monitor="Mon_Sender", harness_cmd="replay-sender",
                   post=fdtxml.postprocess_sender_trace, chunk_size=600, workers=10):
    """Replays behaviours on the real code and judges the traces.  Appends violations to ctx."""
    build_harness()
    for i, b in enumerate(behs):
        b["beh"] = i
    chunks = [behs[i:i + chunk_size] for i in range(0, len(behs), chunk_size)]
    tot = {"events": 0, "behaviours": 0, "kinds": {}}
    t = time.time()
    with cf.ThreadPoolExecutor(max_workers=workers) as ex:
        futs = [ex.submit(_one_chunk, ctx, i, c, label, monitor, harness_cmd, post) for i, c in enumerate(chunks)]
        for fu in futs:
            res, stats, sample_lines = fu.result()
            tot["events"] += stats["events"]
            tot["behaviours"] += stats["behaviours"]
            for k, v in stats["kinds"].items():
                tot["kinds"][k] = tot["kinds"].get(k, 0) + v
            if stats.get("conf"):
                c = ctx.conformance.setdefault(label, {"matched": 0, "unsupported": 0, "drifted": 0, "first_drifts": [], "errors": []})
                c["matched"] += stats["conf"]["match"]
                c["unsupported"] += stats["conf"]["unsupported"]
                c["drifted"] += len(stats["conf"]["drift"])
                for d in stats["conf"]["drift"][:3]:
                    if len(c["first_drifts"]) < 5:
                        dd = dict(d) if isinstance(d, dict) else {"raw": str(d)[:300]}
                        b = behs[dd["beh"]] if isinstance(dd.get("beh"), int) and 0 <= dd["beh"] < len(behs) else None
                        dd["behaviour"] = b
                        c["first_drifts"].append(dd)
                if stats["conf"].get("error"):
                    c["errors"].append(stats["conf"]["error"])
            for h in stats.get("hangs", []):
                ctx.violations.append({"property": "C12", "what": "sender-call-did-not-return-in-bounded-time",
                                       "beh": h["beh"], "witness": h, "source": label,
                                       "behaviour": behs[h["beh"]] if 0 <= h["beh"] < len(behs) else None})
            for v in res["viol"]:
                v = dict(v)
                bid = v.get("beh")
                v["behaviour"] = behs[bid] if isinstance(bid, int) and 0 <= bid < len(behs) else None
                v["source"] = label
                ctx.violations.append(v)
            if sample_lines and len(ctx.samples) < 3:
                ctx.samples.append({"family": label, "behaviour": chunks[0][0] if chunks else None,
                                    "first_trace_events": [json.dumps(x)[:300] for x in sample_lines[1:4]]})
    ctx.traces += tot["behaviours"]
    ctx.events += tot["events"]
    ctx.notes.setdefault("replay", {})[label] = dict(tot, wall_s=round(time.time() - t, 1))
    log("%s: %d behaviours, %d events, %.1fs" % (label, tot["behaviours"], tot["events"], time.time() - t))
    return tot


def own_and_panics(ctx, prop):
    """A sender panic counts against the property under check, whatever the monitor tagged it with."""
    for v in ctx.violations:
        if v.get("what") in ("sender-panic", "sender-call-did-not-return-in-bounded-time"):
            v["property"] = prop


def replay_one(ctx, monitor="Mon_Sender", harness_cmd="replay-sender", post=fdtxml.postprocess_sender_trace):
    j = json.load(open(ctx.replay))
    beh = j["violation"].get("behaviour")
    if not beh:
        print("replay file has no behaviour")
        return 2
    run_behaviours(ctx, [beh], "replay", monitor=monitor, harness_cmd=harness_cmd, post=post, workers=1)
    mine = [v for v in ctx.violations if v.get("property") == ctx.prop]
    for v in dedupe_viol(ctx.violations):
        print("%s %s line=%s witness=%s" % (v.get("property"), v.get("what"), v.get("line"), json.dumps(v.get("witness"))[:300]))
    print("replay verdict: %d violation(s) of %s" % (len(mine), ctx.prop))
    ctx.cleanup()
    return 1 if mine else 0


# --------------------------------------------------------------------------------------------
# model checking of the mechanism specification composed with the monitors (cached: depends on the spec only)

MC_VARIANTS = {
    "C08": [("b-every-block", "packet-after-close-object-flag")],
    "C10": [],
    "C11": [("no-fdt-gate", "object-packet-while-new-fdt-pending")],
    "C12": [("count-off-by-one", "live-set-differs-from-is-added")],
    "C13": [("lifo-queue", "start-order-not-fifo"), ("desc-queues", "lower-priority-packet-while-higher-priority-object-could-start")],
    "C14": [("no-start-check", "start-before-transfer-start-time")],
}


def _mc_hash():
    import hashlib
    h = hashlib.md5()
    for fn in ("Sender.tla", "SenderProps.tla", "MC_Sender.tla", "Partition.tla", "PartitionCore.tla", "VCommon.tla"):
        h.update(open(os.path.join(SPEC, fn), "rb").read())
    return h.hexdigest()[:12]


def mc_sender(ctx, variant, maxops, expect=None):
    """Runs MC_Sender (mechanism + monitors).  variant "ok": must complete without violation.
    Otherwise the run must report the conjunct `expect` (vacuity guard of the monitors)."""
    cdir = os.path.join(VERIF, "work", "cache")
    os.makedirs(cdir, exist_ok=True)
    cpath = os.path.join(cdir, "mc-sender-%s-%d-%s.json" % (variant, maxops, _mc_hash()))
    if os.path.exists(cpath):
        j = json.load(open(cpath))
        j["cached"] = True
    else:
        cfg = ctx.path("mcs-%s.cfg" % variant)
        open(cfg, "w").write('SPECIFICATION Spec\nCONSTANTS MaxOps = %d MaxClock = 4 Variant = "%s" CfgSet = {1, 2, 3, 4}\nINVARIANT ShowBad NoViolation\nCHECK_DEADLOCK FALSE\n' % (maxops, variant))
        r = tlc(ctx, "MC_Sender", cfg=cfg, workers=8, mode="mc", timeout=3000)
        bads = set()
        for line in r["stdout"].splitlines():
            if line.startswith('<<"BAD"') or line.startswith('<< "BAD"'):
                bads.update(re.findall(r'"([a-z][a-z0-9-]+)"', line))
        # multi-line BAD prints
        for m_ in re.finditer(r'<<\s*"BAD",(.*?)>>\s*>>', r["stdout"], re.S):
            bads.update(re.findall(r'"([a-z][a-z0-9-]+)"', m_.group(1)))
        j = {"name": "MC_Sender[variant=%s,MaxOps=%d,4 cfgs]" % (variant, maxops), "states": r["distinct"], "generated": r["generated"],
             "wall_s": r["wall_s"], "completed_without_violation": r["ok"], "reported": sorted(bads)}
        if not r["ok"] and not bads:
            # neither completed nor a monitor conjunct reported: TLC could not evaluate the specification
            raise ToolError("MC_Sender[%s] failed without a monitor report:\n%s" % (variant, "\n".join(
                l for l in r["stdout"].splitlines() if "rror" in l or "Attempted" in l or "exception" in l)[:800]))
        if (variant == "ok" and r["ok"]) or (variant != "ok" and not r["ok"]):
            json.dump(j, open(cpath, "w"))
    ctx.mc.append(j)
    if variant == "ok":
        if not j["completed_without_violation"]:
            # a design-level counterexample: reported as a tool-visible diagnostic, the verdict stays with the traces
            ctx.notes["mc_sender_design_counterexample"] = j["reported"]
    else:
        j["expected"] = expect
        j["monitor_not_vacuous"] = (not j["completed_without_violation"]) and (expect in j["reported"])
        if not j["monitor_not_vacuous"]:
            raise ToolError("self-test failed: broken mechanism variant %s did not make the monitor report %s (reported %s)" % (variant, expect, j["reported"]))
    return j
