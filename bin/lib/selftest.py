"""Binding self-test: traces recorded from the real code are corrupted one field at a time; the monitors must report a
violation and the conformance specifications a drift.  Shows that the specifications constrain the recorded fields
(run: python3 bin/lib/selftest.py).  Exit 0 when every corruption is noticed."""
import sys, os, json, copy, glob
os.environ["VERIF_KEEP_WORK"] = "1"
from common import *
import recvlib, senderlib, fdtxml

JAVA = {"JAVA_TOOL_OPTIONS": JAVA_OPTS_TRACE + " -Xmx3g"}


def run(ctx, module, rows, name):
    p = ctx.path(name + ".ndjson")
    write_ndjson(p, rows)
    r = tlc(ctx, module, workers=1, trace=p, timeout=600, env=JAVA)
    os.remove(p)
    return r


def receiver(ctx):
    spec = {"fam": "small", "cfg": {"scheme": 0, "E": 2048, "B": 8, "interleave": 1, "queues": [[0, 1]], "mode": "full"},
            "objs": [{"clen": 20, "oti": {"scheme": 5, "E": 4, "B": 2, "par": 1, "fti": True}, "count": 1, "groups": ["og"], "etag": "e1", "cenc": 0, "icenc": False, "md5": True}],
            "ops": [["add", 1], ["publish"], ["drain"]]}
    infos = recvlib.session_infos(ctx, [spec], "self")
    n = len(infos[0]["pkts"])
    beh = {"sid": 0, "fam": "clean", "rcfg": {"once": True}, "w": {"md5": True}, "sched": [["seq", 1, n]]}
    recvlib.run_rx(ctx, [spec], infos, [beh], "self", workers=1)
    rows = read_ndjson(os.path.join(ctx.work, "self-0.ndjson"))
    base_m = run(ctx, "Mon_Receiver", rows, "m0")
    base_t = run(ctx, "Trace_Receiver", rows, "t0")
    out = [("receiver: unchanged trace", len(base_m["viol"]) == 0 and len(base_t["tagged"].get("MATCH", [])) == 1 and not base_t["tagged"].get("DRIFT"))]

    def mutate(label, f, want_viol, want_drift=True):
        rr = copy.deepcopy(rows)
        f(rr)
        m = run(ctx, "Mon_Receiver", rr, "m1")
        t = run(ctx, "Trace_Receiver", rr, "t1")
        viol = sorted({v["what"] for v in m["viol"]})
        drift = len(t["tagged"].get("DRIFT", [])) > 0
        ok = (bool(viol) == want_viol) and (drift == want_drift)
        out.append(("receiver: %s -> monitor %s, conformance %s" % (label, viol or "silent", "DRIFT" if drift else "no drift"), ok))

    def ev_with(rr, kind):
        return next(e for e in rr if e.get("ev") == "push" and any(c["k"] == kind for c in e["cb"]))

    def drop_cb(kind):
        def f(rr):
            e = ev_with(rr, kind)
            e["cb"] = [c for c in e["cb"] if c["k"] != kind]
        return f

    def write_len(rr):
        c = next(c for c in ev_with(rr, "write")["cb"] if c["k"] == "write")
        c["len"] += 1

    def write_bytes(rr):
        c = next(c for c in ev_with(rr, "write")["cb"] if c["k"] == "write")
        c["got"] = "00000000"

    def snapshot_cache(rr):
        e = next(e for e in rr if e.get("ev") == "push" and e["st"]["sess"] and e["st"]["sess"][0]["objs"])
        e["st"]["sess"][0]["objs"][0]["cp"] += 1

    def done_registry(rr):
        e = next(e for e in rr if e.get("ev") == "push" and e["st"]["sess"] and e["st"]["sess"][0]["done"])
        e["st"]["sess"][0]["done"] = []

    def second_complete(rr):
        e = ev_with(rr, "complete")
        e["cb"].append(copy.deepcopy(next(c for c in e["cb"] if c["k"] == "complete")))

    mutate("complete callback removed", drop_cb("complete"), True)
    mutate("open callback removed", drop_cb("open"), True)
    mutate("second complete callback", second_complete, True)
    mutate("bytes of a write altered", write_bytes, True, want_drift=False)      # bytes are below the mechanism spec
    mutate("length of a write altered", write_len, False)                         # the monitor judges bytes, the mechanism lengths
    mutate("cached-packet count of the snapshot altered", snapshot_cache, False)
    mutate("completed registry of the snapshot emptied", done_registry, False)
    return out


def sender(ctx):
    beh = {"beh": 0, "fam": "self", "cfg": {"scheme": 0, "E": 1024, "B": 8, "interleave": 2, "queues": [[0, 1]], "mode": "full"},
           "objs": [{"clen": 20, "oti": {"scheme": 5, "E": 4, "B": 2, "par": 1, "fti": True}, "count": 1}],
           "ops": [["add", 1], ["publish"], ["drain"]]}
    inp, raw, tr = ctx.path("s.in"), ctx.path("s.raw"), ctx.path("s.ndjson")
    write_ndjson(inp, [beh])
    harness(["replay-sender", "--in", inp, "--out", raw])
    fdtxml.postprocess_sender_trace(raw, tr)
    fdtxml.add_fdtlens(tr)
    rows = read_ndjson(tr)
    base_m = run(ctx, "Mon_Sender", rows, "sm0")
    base_t = run(ctx, "Trace_Sender", rows, "st0")
    out = [("sender: unchanged trace", len(base_m["viol"]) == 0 and len(base_t["tagged"].get("MATCH", [])) == 1 and not base_t["tagged"].get("DRIFT"))]

    def mutate(label, f, want_viol, want_drift=True):
        rr = copy.deepcopy(rows)
        f(rr)
        m = run(ctx, "Mon_Sender", rr, "sm1")
        t = run(ctx, "Trace_Sender", rr, "st1")
        viol = sorted({v["what"] for v in m["viol"]})
        drift = len(t["tagged"].get("DRIFT", [])) > 0
        out.append(("sender: %s -> monitor %s, conformance %s" % (label, viol[:3] or "silent", "DRIFT" if drift else "no drift"),
                    (bool(viol) == want_viol) and (drift == want_drift)))

    objpk = lambda rr: [e for e in rr if e.get("ev") == "read" and e.get("p", {}).get("k") == "obj"]

    def esi(rr):
        objpk(rr)[1]["p"]["esi"] += 1

    def bflag(rr):
        objpk(rr)[0]["p"]["B"] = True

    def drop_packet(rr):
        rr.remove(objpk(rr)[2])

    def snapshot_queue(rr):
        e = next(e for e in rr if e.get("ev") == "read" and e.get("st"))
        e["st"]["n"] += 1

    mutate("ESI of a packet altered", esi, True)
    mutate("close-object flag set on the first packet", bflag, True)
    mutate("one read event removed (as if a hook were missing)", drop_packet, True)
    mutate("object count of the snapshot altered", snapshot_queue, True)
    return out


def main():
    ctx = Ctx("SELF", "quick", 1)
    res = receiver(ctx) + sender(ctx)
    ctx.cleanup()
    bad = 0
    for label, ok in res:
        print("%s  %s" % ("ok  " if ok else "FAIL", label))
        bad += 0 if ok else 1
    print("self-test: %d of %d as expected" % (len(res) - bad, len(res)))
    return 1 if bad else 0


if __name__ == "__main__":
    sys.exit(main())
