"""ad-hoc: replay one (session, schedule) and print the trace; input: JSON {"session":..., "behaviour":...} or an evidence drift entry"""
import sys, json, os
os.environ["VERIF_KEEP_WORK"] = "1"
from common import *
import recvlib, senderlib, glob

def main():
    j = json.load(open(sys.argv[1]))
    spec, b = j["session"], dict(j["behaviour"])
    b["sid"] = 0
    b.pop("streams", None)
    ctx = Ctx("CXX", "quick", 1)
    ctx.rx_conformance_spec = "Trace_Receiver"
    infos = recvlib.session_infos(ctx, [spec], "one")
    recvlib.run_rx(ctx, [spec], infos, [b], "one", workers=1)
    f = glob.glob(os.path.join(ctx.work, "one-0.ndjson"))[0]
    for line in open(f):
        e = json.loads(line)
        if e["ev"] == "session":
            print("SESSION objs", json.dumps(e["objs"])[:600]); print("  fdts", json.dumps(e["fdts"])[:400])
            for p in e["pkts"]:
                print("  pkt", json.dumps(p)[:300])
        else:
            print(json.dumps(e)[:int(sys.argv[2]) if len(sys.argv) > 2 else 700])
    for v in ctx.violations:
        print("VIOL", v["property"], v["what"], json.dumps(v["witness"])[:300])
    print("CONF", json.dumps({k: {x: c[x] for x in c if x != "first_drifts"} for k, c in ctx.conformance.items()}))
    for c in ctx.conformance.values():
        for d in c["first_drifts"]:
            print("DRIFT", json.dumps({k: d[k] for k in d if k not in ("behaviour", "session")})[:1500])
    ctx.cleanup()
main()
