"""ad-hoc exploration helper: run a family sample and print violation summary"""
import sys, json, collections
from common import *
import senderlib

def main():
    fam = sys.argv[1]; n = int(sys.argv[2]); depth = int(sys.argv[3]) if len(sys.argv) > 3 else 0
    ctx = Ctx("CXX", "quick", 1)
    ctx.conformance_spec = "Trace_Sender"
    behs = senderlib.gen(ctx, fam, depth)
    behs = senderlib.sample(behs, n, 1)
    senderlib.run_behaviours(ctx, behs, fam)
    c = collections.Counter((v["property"], v["what"]) for v in ctx.violations)
    for k, v in sorted(c.items()):
        ex = next(x for x in ctx.violations if (x["property"], x["what"]) == k)
        print(v, k, "witness", json.dumps(ex["witness"])[:200])
        b = ex["behaviour"]
        cc = collections.Counter((x["behaviour"]["objs"][0].get("oti",{}).get("scheme"), x["behaviour"]["objs"][0].get("clen")) for x in ctx.violations if (x["property"], x["what"]) == k)
        print("     by (scheme,clen) of obj1:", dict(cc))
        print("     beh:", json.dumps({"cfg": {k2: b["cfg"][k2] for k2 in b["cfg"] if k2 not in ("E", "B", "scheme")}, "objs": b["objs"], "ops": b["ops"]})[:700])
    print(ctx.notes)
    for lab, c in ctx.conformance.items():
        print("CONFORMANCE", lab, {k: c[k] for k in ("matched", "unsupported", "drifted")}, c["errors"][:1])
        for d in c["first_drifts"][:4]:
            print("  DRIFT", json.dumps({k: d[k] for k in d if k != "behaviour"})[:700])
            if d.get("behaviour"):
                b = d["behaviour"]; print("     beh:", json.dumps({"cfg": {k2: b["cfg"][k2] for k2 in b["cfg"] if k2 not in ("E", "B", "scheme")}, "objs": b["objs"], "ops": b["ops"]})[:600])
    ctx.cleanup()
main()
