from sendercheck import main
