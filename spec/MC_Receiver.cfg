SPECIFICATION Spec
CONSTANTS MaxPush = 6 Variant = "ok" SessSet = {1, 2, 3, 4} CfgSet = {1, 2, 3, 4, 5, 6, 7, 8, 9, 10}
INVARIANT ShowBad NoViolation
VIEW MCView
CHECK_DEADLOCK FALSE
