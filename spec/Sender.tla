-------------------------------- MODULE Sender --------------------------------
(***************************************************************************)
(* Mechanism specification of the FLUTE sender (sender/sender.rs, fdt.rs,  *)
(* filedesc.rs, sendersession.rs, blockencoder.rs, block.rs), structured   *)
(* like the implementation: one operator per public call, whose effect is  *)
(* computed by operators that mirror the code's functions.                 *)
(*                                                                         *)
(*   Read         <-> Sender::read  = RunFdt . RunQueues . RunFdt          *)
(*   RunSession   <-> SenderSession::run  (get next, FDT gate, forced stop,*)
(*                    pacing gate, encoder read, release)                  *)
(*   NextFdt      <-> Fdt::get_next_fdt_transfer (will-expire margins, pop)*)
(*   NextFile     <-> Fdt::get_next_file_transfer (FIFO scan, StartTransfer,*)
(*                    publication in ObjectsBeingTransferred mode)         *)
(*   Done         <-> Fdt::transfer_done (requeue / expire / removed)      *)
(*   ShouldNow    <-> FileDesc::should_transfer_now                        *)
(*   EncRead      <-> BlockEncoder::read, ReadWindow, Block::read          *)
(*   Publish, Add, Remove, Trigger, SetComplete <-> the Fdt methods        *)
(*                                                                         *)
(* The state s is one record; time is the caller's clock in ticks.  The    *)
(* only inputs are the calls with their arguments and, for each FDT        *)
(* instance, the length of its XML (the model does not serialise XML).     *)
(* Block structure comes from Partition.tla.  The specification is         *)
(* deterministic: given the same calls it predicts every packet            *)
(* (kind, object / instance id, SBN, ESI, close-object flag), every        *)
(* subscriber event and the projection of the internal containers, which   *)
(* is what Trace_Sender compares with the recorded traces.                 *)
(***************************************************************************)
EXTENDS Partition, FiniteSets, SequencesExt, TLC

NoEnc == [o |-> -1]
\* cfg.variant = "ok" is the specification of the code; other values deliberately break one rule of the
\* mechanism (used by MC_Sender to show that the property monitors are not vacuous)
V(s) == s.cfg.variant
IdMod == 1048576
None == -1

-----------------------------------------------------------------------------
(* static data: cfg and the object catalogue `objs` live inside the state  *)
QueueKeys(cfg) == {cfg.queues[i][1] : i \in 1..Len(cfg.queues)}
SlotsOf(cfg, q) == LET e == CHOOSE x \in {cfg.queues[i] : i \in 1..Len(cfg.queues)} : x[1] = q IN IF e[2] = 0 THEN 1 ELSE e[2]
TicksPerSec(cfg) == 1000000 \div cfg.tick_us        \* tick_us divides one second in every generated behaviour

NewInfo(start) == [transferring |-> FALSE, count |-> 0, total |-> 0, lastEnd |-> None, lastStart |-> None,
                   t0 |-> None, idx |-> 0, paced |-> FALSE, startT |-> start, published |-> FALSE]

InitState(cfg, objs) ==
  [ cfg |-> cfg, objs |-> objs,
    files |-> {}, fq |-> <<>>, info |-> [o \in 1..Len(objs) |-> NewInfo(objs[o].start)],
    fdtq |-> <<>>, fcur |-> None, finfo |-> <<>>, fcontent |-> <<>>, fdtid |-> cfg.fdt_start, lastPub |-> None, complete |-> FALSE,
    fsess |-> NoEnc,
    sess |-> [q \in QueueKeys(cfg) |-> [index |-> 1, slots |-> [i \in 1..SlotsOf(cfg, q) |-> NoEnc]]],
    sub |-> <<>>, out |-> [k |-> "none"] ]

-----------------------------------------------------------------------------
(* FileDesc / TransferInfo *)
Ob(s, o) == s.objs[o]
CarKind(s, o) == Ob(s, o).car[1]
CarD(s, o)    == Ob(s, o).car[2]

\* FileDesc::should_transfer_now for an object
ShouldNow(s, o, q, now) ==
  LET i == s.info[o] IN
  /\ Ob(s, o).q = q
  /\ (s.cfg.mode = "full" => i.published)
  /\ (i.startT = None \/ now >= i.startT \/ V(s) = "no-start-check")
  /\ ~i.transferring
  /\ \/ Ob(s, o).count > i.count
     \/ CarKind(s, o) = "none" \/ i.lastEnd = None \/ i.lastStart = None
     \/ (CarKind(s, o) = "delay" /\ now - i.lastEnd > CarD(s, o))
     \/ (CarKind(s, o) = "interval" /\ now - i.lastStart > CarD(s, o))

\* TransferInfo::init
Started(s, o, now) ==
  LET i == s.info[o]
      paced == Ob(s, o).target[1] \in {"dur", "time"} /\ T(Ob(s, o).L, Ob(s, o).E) > 0
  IN  [s EXCEPT !.info[o] = [i EXCEPT !.transferring = TRUE, !.lastStart = now,
                                      !.paced = paced, !.t0 = IF paced THEN now ELSE @, !.idx = IF paced THEN 0 ELSE @,
                                      !.count = IF i.count = Ob(s, o).count /\ CarKind(s, o) # "none" THEN 0 ELSE @]]
IsExpired(s, o)  == (IF V(s) = "count-off-by-one" THEN Ob(s, o).count < s.info[o].count ELSE Ob(s, o).count <= s.info[o].count)
                    /\ CarKind(s, o) = "none"
IsLastTransfer(s, o) == CarKind(s, o) = "none" /\ Ob(s, o).count = s.info[o].count + 1
CanStop(s, o) == Ob(s, o).imm \/ s.info[o].total > 0
\* pacing gate: next_transfer_timestamp > now, with tick = target / number of source packets (exact rational arithmetic)
TargetDur(s, o) == LET tg == Ob(s, o).target IN
                   IF tg[1] = "dur" THEN tg[2] ELSE IF tg[1] = "time" THEN Max2(0, tg[2] - s.info[o].t0) ELSE 0
\* packet_transmission_tick = duration.div_f64(nb_packets): a Duration, i.e. rounded to the nearest nanosecond
\* (this rounding is observable: 2 ms / 3 packets = 666 667 ns, three ticks end 1 ns after the 2 ms)
NsPerTick(s) == s.cfg.tick_us * 1000
TickNs(s, o) == LET n == T(Ob(s, o).L, Ob(s, o).E) IN (TargetDur(s, o) * NsPerTick(s) + n \div 2) \div n
PacingBlocks(s, o, now) ==
  LET i == s.info[o] IN
  i.paced /\ (i.t0 * NsPerTick(s) + i.idx * TickNs(s, o) > now * NsPerTick(s))

\* the FDT objects have their own TransferInfo: max_transfer_count 1, carousel = cfg.fdt_car
FInfo(s, id) == s.finfo[id]
FdtShouldNow(s, id, now) ==
  LET i == FInfo(s, id) IN
  /\ ~i.transferring
  /\ \/ 1 > i.count
     \/ i.lastEnd = None \/ i.lastStart = None
     \/ (s.cfg.fdt_car[1] = "delay" /\ now - i.lastEnd > s.cfg.fdt_car[2])
     \/ (s.cfg.fdt_car[1] = "interval" /\ now - i.lastStart > s.cfg.fdt_car[2])

-----------------------------------------------------------------------------
(* Fdt::publish *)
Listed(s) == IF s.cfg.mode = "full" THEN s.files ELSE {o \in s.files : s.info[o].transferring}
Publish(s, now) ==
  LET id == s.fdtid IN
  [s EXCEPT !.fdtq = Append(@, id),
            !.fcontent = [x \in DOMAIN @ \cup {id} |-> IF x = id THEN [files |-> Listed(s), t |-> now, complete |-> s.complete] ELSE @[x]],
            !.finfo = [x \in DOMAIN @ \cup {id} |-> IF x = id THEN [transferring |-> FALSE, count |-> 0, lastEnd |-> None, lastStart |-> None] ELSE @[x]],
            !.fdtid = (id + 1) % IdMod, !.lastPub = now,
            !.info = [o \in DOMAIN @ |-> IF o \in s.files THEN [@[o] EXCEPT !.published = TRUE] ELSE @[o]]]

\* Fdt::current_fdt_will_expire
WillExpire(s, now) ==
  LET D == s.cfg.fdt_dur * TicksPerSec(s.cfg) IN
  IF s.fdtq # <<>> THEN FALSE
  ELSE IF s.fcur = None \/ s.lastPub = None THEN TRUE
  ELSE LET d == Max2(0, now - s.lastPub) IN
       IF s.cfg.fdt_dur > 30 THEN D - 5 * TicksPerSec(s.cfg) < d
       ELSE IF s.cfg.fdt_dur > 10 THEN D - TicksPerSec(s.cfg) < d
       ELSE D <= d

-----------------------------------------------------------------------------
(* BlockEncoder *)
NewEnc(s, o, id, L, closable) ==
  LET E == IF o = 0 THEN s.cfg.E ELSE Ob(s, o).E
      B == IF o = 0 THEN s.cfg.B ELSE Ob(s, o).B
      par == IF o = 0 THEN s.cfg.par ELSE Ob(s, o).par
  IN [o |-> o, id |-> id, L |-> L, E |-> E, B |-> B, par |-> par, nblk |-> N(L, E, B),
      cur |-> 0, rend |-> FALSE, blocks |-> <<>>, mux |-> 0, src |-> 0, nb |-> 0, stopped |-> FALSE, closable |-> closable,
      variant |-> V(s)]

\* read_window: load blocks while the window is not full
RECURSIVE ReadWindow(_, _)
ReadWindow(e, win) ==
  IF e.rend \/ Len(e.blocks) >= win THEN e
  ELSE IF e.L = 0 THEN [e EXCEPT !.rend = TRUE]
  ELSE LET k == BlockSyms(e.L, e.E, e.B, e.cur) IN
       ReadWindow([e EXCEPT !.blocks = Append(@, [sbn |-> e.cur, idx |-> 0, n |-> k + e.par, k |-> k]),
                            !.cur = @ + 1, !.rend = (e.cur + 1 = e.nblk)], win)

\* BlockEncoder::read; returns <<encoder, packet or [k |-> "none"]>>
RECURSIVE EncLoop(_, _, _, _)
EncLoop(e0, win, force, fuel) ==
  LET e == ReadWindow(e0, win) IN
  IF e.blocks = <<>> THEN
     IF e.nb = 0 THEN << [e EXCEPT !.nb = 1], [k |-> "pkt", sbn |-> 0, esi |-> 0, B |-> TRUE, len0 |-> TRUE] >>
     ELSE << e, [k |-> "none"] >>
  ELSE
  LET m == IF e.mux >= Len(e.blocks) THEN 0 ELSE e.mux
      others == \A i \in 1..Len(e.blocks) : i = m + 1 \/ e.blocks[i].idx = e.blocks[i].n
      b == e.blocks[m + 1] IN
  IF b.idx = b.n THEN
     IF fuel = 0 THEN << e, [k |-> "none"] >>
     ELSE EncLoop([e EXCEPT !.mux = m, !.blocks = [i \in 1..(Len(@) - 1) |-> IF i <= m THEN @[i] ELSE @[i + 1]]], win, force, fuel - 1)
  ELSE
  LET esi == b.idx
      last == esi + 1 = b.n
      src1 == e.src + (IF esi < b.k THEN 1 ELSE 0)
      lastPkt == src1 >= T(e.L, e.E) /\ last /\ others
  IN << [e EXCEPT !.blocks[m + 1].idx = esi + 1, !.mux = m + 1, !.src = src1, !.nb = @ + 1],
        [k |-> "pkt", sbn |-> b.sbn, esi |-> esi,
         B |-> (force \/ (e.closable /\ (IF e.variant = "b-every-block" THEN last ELSE lastPkt))), len0 |-> FALSE] >>

EncRead(e, win, force) ==
  IF e.stopped THEN << e, [k |-> "none"] >>
  ELSE EncLoop([e EXCEPT !.stopped = force], win, force, 2 * (e.nblk + 2))

-----------------------------------------------------------------------------
(* Fdt::transfer_done *)
DoneFile(s, o, now) ==
  LET i == s.info[o]
      s1 == [s EXCEPT !.info[o] = [i EXCEPT !.transferring = FALSE, !.count = @ + 1, !.total = @ + 1, !.lastEnd = now],
                      !.sub = Append(@, <<"stop", o>>)]
  IN  IF o \notin s1.files THEN s1
      ELSE IF ~IsExpired(s1, o) THEN [s1 EXCEPT !.fq = Append(@, o)]
      ELSE [s1 EXCEPT !.files = @ \ {o}]
DoneFdt(s, id, now) ==
  [s EXCEPT !.finfo[id] = [@ EXCEPT !.transferring = FALSE, !.count = @ + 1, !.lastEnd = now]]

\* Fdt::get_next_fdt_transfer; returns <<state, id or None>>
NextFdt(s, now) ==
  IF s.fcur # None /\ FInfo(s, s.fcur).transferring THEN <<s, None>>
  ELSE LET s1 == IF WillExpire(s, now) THEN Publish(s, now) ELSE s
           s2 == IF s1.fdtq # <<>> THEN [s1 EXCEPT !.fcur = Head(s1.fdtq), !.fdtq = Tail(@)] ELSE s1
       IN  IF s2.fcur = None THEN <<s2, None>>
           ELSE IF ~FdtShouldNow(s2, s2.fcur, now) THEN <<s2, None>>
           ELSE << [s2 EXCEPT !.finfo[s2.fcur] = [@ EXCEPT !.transferring = TRUE, !.lastStart = now]], s2.fcur >>

\* Fdt::get_next_file_transfer; returns <<state, o or None>>
NextFile(s, q, now) ==
  LET I == {i \in 1..Len(s.fq) : ShouldNow(s, s.fq[i], q, now)} IN
  IF I = {} THEN <<s, None>>
  ELSE LET i == IF V(s) = "lifo-queue" THEN CHOOSE x \in I : \A y \in I : x >= y ELSE CHOOSE x \in I : \A y \in I : x <= y
           o == s.fq[i]
           s1 == [s EXCEPT !.fq = [j \in 1..(Len(@) - 1) |-> IF j < i THEN @[j] ELSE @[j + 1]], !.sub = Append(@, <<"start", o>>)]
           s2 == Started(s1, o, now)
           s3 == IF s.cfg.mode = "obt" THEN Publish(s2, now) ELSE s2
       IN  <<s3, o>>

-----------------------------------------------------------------------------
(* SenderSession::run; fdtL(id) is the transfer length of FDT instance id  *)
\* file session: slot i of queue q.  Returns the new state; the packet (if any) is in s.out
RECURSIVE RunFile(_, _, _, _, _)
RunFile(s, q, i, now, fuel) ==
  LET slot == s.sess[q].slots[i] IN
  LET \* 1. get next
      g == IF slot.o = -1 THEN NextFile(s, q, now) ELSE <<s, None>>
      s1 == IF slot.o = -1 /\ g[2] # None
            THEN [g[1] EXCEPT !.sess[q].slots[i] = NewEnc(g[1], g[2], None, Ob(g[1], g[2]).L, IsLastTransfer(g[1], g[2]))]
            ELSE g[1]
      enc == s1.sess[q].slots[i]
  IN
  IF s1.fdtq # <<>> /\ V(s1) # "no-fdt-gate" THEN s1      \* a new FDT must go first
  ELSE IF enc.o = -1 THEN s1
  ELSE
  LET o == enc.o
      mustStop == CanStop(s1, o) /\ o \notin s1.files
  IN  IF PacingBlocks(s1, o, now) THEN s1
      ELSE LET r == EncRead(enc, s1.cfg.interleave, mustStop) IN
           IF r[2].k = "none" THEN
              \* release the file and look for the next one
              LET s2 == [DoneFile(s1, o, now) EXCEPT !.sess[q].slots[i] = NoEnc] IN
              IF fuel = 0 THEN s2 ELSE RunFile(s2, q, i, now, fuel - 1)
           ELSE [s1 EXCEPT !.sess[q].slots[i] = r[1],
                           !.info[o].idx = IF s1.info[o].paced THEN @ + 1 ELSE @,
                           !.out = [k |-> "obj", o |-> o, sbn |-> r[2].sbn, esi |-> r[2].esi, B |-> r[2].B]]

RECURSIVE RunFdt(_, _, _, _)
RunFdt(s, now, fdtL, fuel) ==
  LET g == IF s.fsess.o = -1 THEN NextFdt(s, now) ELSE <<s, None>>
      s1 == IF s.fsess.o = -1 /\ g[2] # None
            THEN [g[1] EXCEPT !.fsess = NewEnc(g[1], 0, g[2], fdtL[g[2]], FALSE)]
            ELSE g[1]
      enc == s1.fsess
  IN  IF enc.o = -1 THEN s1
      ELSE LET r == EncRead(enc, s1.cfg.interleave, FALSE) IN
           IF r[2].k = "none" THEN
              LET s2 == [DoneFdt(s1, enc.id, now) EXCEPT !.fsess = NoEnc] IN
              IF fuel = 0 THEN s2 ELSE RunFdt(s2, now, fdtL, fuel - 1)
           ELSE [s1 EXCEPT !.fsess = r[1], !.out = [k |-> "fdt", id |-> enc.id, sbn |-> r[2].sbn, esi |-> r[2].esi, B |-> r[2].B]]

\* Sender::read_priority_queue: round robin over the slots of one queue
RECURSIVE RunQueue(_, _, _, _, _)
RunQueue(s, q, now, orig, first) ==
  LET n == Len(s.sess[q].slots)
      i == s.sess[q].index
      s1 == RunFile(s, q, i, now, 4 + Len(s.objs))
      s2 == [s1 EXCEPT !.sess[q].index = IF i = n THEN 1 ELSE i + 1]
  IN  IF s2.out.k # "none" THEN s2
      ELSE IF s2.sess[q].index = orig THEN s2
      ELSE RunQueue(s2, q, now, orig, FALSE)

RECURSIVE RunQueues(_, _, _)
RunQueues(s, qs, now) ==
  IF qs = <<>> THEN s
  ELSE LET s1 == RunQueue(s, Head(qs), now, s.sess[Head(qs)].index, TRUE) IN
       IF s1.out.k # "none" THEN s1 ELSE RunQueues(s1, Tail(qs), now)

SortedQueues(cfg) == SortSeq(SetToSeq(QueueKeys(cfg)), LAMBDA a, b : IF cfg.variant = "desc-queues" THEN a > b ELSE a < b)

\* Sender::read
Read(s0, now, fdtL) ==
  LET s == [s0 EXCEPT !.sub = <<>>, !.out = [k |-> "none"]]
      a == RunFdt(s, now, fdtL, 3)
  IN  IF a.out.k # "none" THEN a
      ELSE LET b == RunQueues(a, SortedQueues(s.cfg), now) IN
           IF b.out.k # "none" THEN b ELSE RunFdt(b, now, fdtL, 3)

-----------------------------------------------------------------------------
(* the other calls *)
AddObject(s, o) == IF s.complete THEN s
             ELSE [s EXCEPT !.files = @ \cup {o}, !.fq = Append(@, o), !.info[o] = NewInfo(Ob(s, o).start)]
AddOk(s, o) == ~s.complete
RemoveObject(s, o) == IF o \notin s.files THEN s
                ELSE [s EXCEPT !.files = @ \ {o}, !.fq = SelectSeq(@, LAMBDA x : x # o)]
Trigger(s, o, at) == IF o \notin s.files \/ s.info[o].transferring THEN s
                     ELSE [s EXCEPT !.info[o] = [@ EXCEPT !.lastEnd = None, !.lastStart = None, !.startT = IF at >= 0 THEN at ELSE @]]
SetComplete(s) == [s EXCEPT !.complete = TRUE]

-----------------------------------------------------------------------------
(* projection compared with the hook snapshot / public getters *)
SlotObj(e) == IF e.o = -1 THEN 0 ELSE e.o
Proj(s) == [ live |-> s.files, n |-> Cardinality(s.files), fq |-> s.fq, fdtid |-> s.fdtid, fdtq |-> s.fdtq,
             fcur |-> IF s.fcur = None THEN <<>> ELSE <<s.fcur, FInfo(s, s.fcur).transferring>>,
             xf |-> [o \in s.files |-> s.info[o].total],
             slots |-> [q \in DOMAIN s.sess |-> [i \in 1..Len(s.sess[q].slots) |-> SlotObj(s.sess[q].slots[i])]],
             index |-> [q \in DOMAIN s.sess |-> s.sess[q].index - 1] ]
=============================================================================
