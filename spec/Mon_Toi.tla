-------------------------------- MODULE Mon_Toi --------------------------------
(* C15 monitor over recorded sender traces: every TOI returned by           *)
(* allocate_toi / add_object is non-zero, fits the configured width, differs *)
(* from every TOI currently reserved by a handle or attached to a live       *)
(* object, and is the TOI carried by the object's packets.  TOIs are compared *)
(* as hexadecimal strings (no integer of 112 bits ever enters TLC).          *)
EXTENDS Integers, Sequences, FiniteSets, VCommon, IOUtils
Rec == ndJsonDeserialize(IOEnv.TRACE)
VARIABLES l, m
Init == l = 1 /\ m = [beh |-> -1]
SeqToSet(s) == {s[i] : i \in 1..Len(s)}
NewMon(e) == [beh |-> e.beh, w |-> e.cfg.toi_w, H |-> <<>>, O |-> [o \in 1..Len(e.objs) |-> ""], live |-> {}]
\* objects that are listed or still hold a sender session
LiveOf(st) == SeqToSet(st.live) \cup (UNION {SeqToSet(st.slots[i][3]) : i \in 1..Len(st.slots)} \ {0})
Taken(mm) == ({mm.H[h] : h \in DOMAIN mm.H} \cup {mm.O[o] : o \in mm.live}) \ {""}
Fresh(mm, e, what) ==
  /\ Check(e.toix # "0", "C15", "allocated-toi-is-zero", mm.beh, l, what)
  /\ Check(Len(e.toix) * 4 <= mm.w, "C15", "allocated-toi-wider-than-configured", mm.beh, l, <<what, e.toix, mm.w>>)
  /\ Check(e.toix \notin Taken(mm), "C15", "allocated-toi-already-reserved-or-attached-to-a-live-object", mm.beh, l, <<what, e.toix>>)
Next == /\ l <= Len(Rec)
        /\ LET e == Rec[l] IN
           IF e.ev = "reset" THEN m' = IF Has(e, "skip") THEN [beh |-> -1] ELSE NewMon(e)
           ELSE IF m.beh = -1 THEN m' = m
           ELSE LET m0 == IF Has(e, "st") THEN [m EXCEPT !.live = LiveOf(e.st)] ELSE m IN
             IF Has(e, "res") /\ e.res = "panic" THEN
                /\ Report("C15", "sender-panic", m.beh, l, IF Has(e, "m") THEN e.m ELSE "")
                /\ m' = [beh |-> -1]
             ELSE IF e.ev = "alloc" THEN
                /\ Fresh(m, e, "allocate_toi")
                /\ m' = [m EXCEPT !.H = [h \in DOMAIN @ \cup {e.h} |-> IF h = e.h THEN e.toix ELSE @[h]]]
             ELSE IF e.ev = "ad" THEN
                /\ Fresh(m, e, "allocate_toi")
                /\ m' = m
             ELSE IF e.ev = "droptoi" THEN
                m' = [m EXCEPT !.H = [h \in DOMAIN @ |-> IF h = e.h THEN "" ELSE @[h]]]
             ELSE IF e.ev = "add" /\ e.res = "ok" THEN
                /\ IF e.h >= 0
                   THEN Check(e.h \in DOMAIN m.H /\ e.toix = m.H[e.h], "C15", "object-toi-differs-from-the-reserved-handle", m.beh, l, <<e.o, e.toix>>)
                   ELSE Fresh(m, e, "add_object")
                /\ m' = [m0 EXCEPT !.O[e.o] = e.toix,
                                   !.H = IF e.h >= 0 THEN [h \in DOMAIN @ |-> IF h = e.h THEN "" ELSE @[h]] ELSE @]
             ELSE IF e.ev = "read" /\ e.p.k = "obj" THEN
                /\ Check(e.p.o # 0 /\ e.p.toix = m.O[e.p.o], "C15", "packet-toi-differs-from-the-allocated-toi", m.beh, l, <<e.p.o, e.p.toix>>)
                /\ m' = m0
             ELSE m' = m0
        /\ l' = l + 1
Spec == Init /\ [][Next]_<<l, m>>
AllConsumed == IF TLCGet("stats").diameter = Len(Rec) + 1 THEN TRUE
               ELSE PrintT(<<"UNCONSUMED", TLCGet("stats").diameter, Len(Rec)>>) /\ FALSE
=============================================================================
