------------------------------- MODULE Receiver -------------------------------
(***************************************************************************)
(* Mechanism specification of the FLUTE receiver for one session           *)
(* (receiver/receiver.rs, objectreceiver.rs, fdtreceiver.rs, blockdecoder, *)
(* blockwriter, multireceiver.rs for session open / close-session / drop), *)
(* structured like the implementation:                                     *)
(*                                                                         *)
(*   Push        <-> MultiReceiver::push -> Receiver::push                 *)
(*   PushFdt     <-> Receiver::push_fdt_obj (FdtReceiver::push, expiry,    *)
(*                   fdt_received, attach, gc of the completed registry)   *)
(*   PushObj     <-> Receiver::push_obj (registries, create_obj + attach   *)
(*                   to the first unexpired instance, ObjPush, CheckState) *)
(*   ObjPush     <-> ObjectReceiver::push (cenc / OTI from the packet,     *)
(*                   partition, writer, cache replay, cache, block push)   *)
(*   ToBlock     <-> push_to_block / push_to_block2 (empty object, window, *)
(*                   allocation guard, decode, flush, close-object flag)   *)
(*   Attach      <-> ObjectReceiver::attach_fdt                            *)
(*   InitWriter  <-> init_object_writer (builder answer, open)             *)
(*   Flush       <-> write_blocks + BlockWriter::write (in SBN order)      *)
(*   Cleanup, DropAll <-> Receiver::cleanup, Drop                          *)
(*                                                                         *)
(* A packet is an abstract record of the recorded real session (kind,      *)
(* object / instance id, SBN, ESI, close flags, in-band FTI and CENC, SCT, *)
(* size).  Environment inputs: the order of pushes, the receiver clock,    *)
(* and the scripted writer (builder answer, open result, failing write).   *)
(* Decode rule: No-Code all k source symbols; Reed-Solomon any k distinct  *)
(* symbols; RaptorQ / Raptor all k source symbols (the model is only       *)
(* oracle of the call decides when repair symbols are needed).             *)
(* Outputs: the callback sequence of every call and the projection of the  *)
(* containers, compared with the recorded traces by Trace_Receiver.        *)
(***************************************************************************)
EXTENDS Partition, FiniteSets, SequencesExt, TLC

None == -1
SeqSet(q) == {q[i] : i \in 1..Len(q)}

-----------------------------------------------------------------------------
(* session data S: objs, pkts, fdts, cfg, toinum *)
SOb(S, o)  == S.objs[o]
SFdt(S, id) == S.fdts[CHOOSE j \in 1..Len(S.fdts) : S.fdts[j].id = id]
HasFdt(S, id) == \E j \in 1..Len(S.fdts) : S.fdts[j].id = id
IsRSch(sc) == sc \in {5, 129}

NewObj == [st |-> "R", oti |-> FALSE, tl |-> None, cenc |-> None, fdt |-> None, cache |-> <<>>, csize |-> 0,
           parted |-> FALSE, blocks |-> <<>>, boff |-> 0, nslots |-> 0, alloc |-> 0, abytes |-> 0,
           w |-> 0, ws |-> "none", bwsbn |-> 0, left |-> 0, wfail |-> 0, nwrite |-> 0, hint |-> None, nocache |-> FALSE,
           bad |-> FALSE]       \* bytes of an altered symbol were handed to the writer
\* a block: symbols received, done flag, initialised flag, size
\* poison: an altered symbol (payload bytes changed in transit) was accepted into the block before it was decoded
NewBlk == [syms |-> {}, done |-> FALSE, init |-> FALSE, size |-> 0, poison |-> FALSE]

InitRx(rcfg, wscript) ==
  [ rcfg |-> rcfg, ws |-> wscript,
    objects |-> <<>>,          \* o -> object record (objects being received)
    completed |-> <<>>,        \* o -> cache hint (expiry of the instance / explicit value), registry of completed objects
    errors |-> {},             \* registry of failed objects
    fr |-> <<>>,               \* FDT receivers: id -> [st, blocks, off]
    fcur |-> <<>>,             \* current instances, newest first (ids)
    foff |-> <<>>,             \* id -> estimated offset receiver clock - sender clock (seconds)
    fexp |-> <<>>,             \* id -> expired flag (state Expired is sticky)
    open |-> FALSE, closing |-> FALSE, nextw |-> 1, cb |-> <<>>,
    fd |-> TRUE,               \* oracle of the current call for the decoding of fountain codes (see Decodable)
    alt |-> FALSE ]            \* the payload of the packet of the current call was altered in transit

\* effective scheme parameters of object o (or of the FDT with o = 0)
Sch(S, o) == IF o = 0 THEN S.cfg.scheme ELSE SOb(S, o).scheme
PE(S, o)  == IF o = 0 THEN S.cfg.E ELSE SOb(S, o).E
PB(S, o)  == IF o = 0 THEN S.cfg.B ELSE SOb(S, o).B
PPar(S, o) == IF o = 0 THEN S.cfg.par ELSE SOb(S, o).par
MaxAlloc(r, o) == IF o = 0 THEN 1048576 ELSE IF r.rcfg.max_cache < 0 THEN 10485760 ELSE r.rcfg.max_cache

\* deliberately broken variants of the mechanism (only MC_Receiver sets rcfg.variant; vacuity guard of the monitors)
Var(r) == IF "variant" \in DOMAIN r.rcfg THEN r.rcfg.variant ELSE "ok"

-----------------------------------------------------------------------------
(* callbacks *)
Emit(r, c) == [r EXCEPT !.cb = Append(@, c)]

\* decode rule
\* No-Code: all k source symbols.  Reed-Solomon: any k distinct symbols.  Raptor / RaptorQ: all source symbols decode for
\* sure, fewer than k symbols never do; in between (k or more symbols, some of them repair symbols) the linear system of
\* the code is solvable or not: the oracle fd of the call decides (Trace_Receiver tries both values)
Decodable(sc, k, par, syms, fd, variant) ==
  IF IsRSch(sc) /\ variant = "rs-needs-all-source-symbols" THEN 0..(k - 1) \subseteq syms
  ELSE IF IsRSch(sc) THEN Cardinality(syms \cap 0..(k + par - 1)) >= k
  ELSE IF 0..(k - 1) \subseteq syms THEN TRUE
  ELSE IF sc \in {1, 6} /\ Cardinality(syms) >= k THEN fd
  ELSE FALSE

-----------------------------------------------------------------------------
(* ObjectReceiver; operators take and return <<r, ob>> where ob is the object under work *)

Complete(r, ob) ==
  << IF ob.w > 0 THEN LET c == Emit(r, [k |-> "complete", w |-> ob.w, tot |-> ob.tl - ob.left]) IN      \* w = -2: the FDT's internal writer
                      IF Var(r) = "error-after-complete" THEN Emit(c, [k |-> "error", w |-> ob.w]) ELSE c
     ELSE r,
     [ob EXCEPT !.st = "C", !.ws = IF ob.w # 0 THEN "closed" ELSE @, !.blocks = <<>>, !.nslots = 0, !.cache = <<>>, !.csize = 0] >>
Error(r, ob, interrupted) ==
  << IF ob.w > 0 THEN Emit(r, [k |-> IF interrupted THEN "interrupted" ELSE "error", w |-> ob.w]) ELSE r,
     [ob EXCEPT !.st = IF interrupted THEN "I" ELSE "E", !.ws = IF ob.w # 0 THEN "error" ELSE @,
                !.blocks = <<>>, !.nslots = 0, !.cache = <<>>, !.csize = 0] >>

\* init_blocks_partitioning
InitPart(S, o, ob) ==
  IF ob.boff + ob.nslots > 0 \/ ~ob.oti \/ ob.tl = None THEN ob
  ELSE LET n == Min2(N(ob.tl, PE(S, o), PB(S, o)), 2048) IN
       [ob EXCEPT !.parted = TRUE, !.nslots = n, !.blocks = [b \in 0..(n - 1) |-> NewBlk]]

\* init_object_writer; o = 0: the FDT's own writer (always stores, always opens)
InitWriter(S, r, o, ob, now) ==
  IF ob.w # 0 \/ ob.ws # "none" \/ ob.fdt = None \/ ob.cenc = None \/ ob.tl = None \/ ~ob.oti THEN <<r, ob>>
  ELSE IF o = 0 THEN <<r, [ob EXCEPT !.w = -2, !.ws = "opened", !.left = ob.tl]>>
  ELSE
  LET w == r.nextw
      ans == IF w <= Len(r.ws.ans) THEN r.ws.ans[w] ELSE "store"
      r1 == Emit([r EXCEPT !.nextw = w + 1], [k |-> "new", w |-> w, o |-> o, ans |-> ans, ts |-> now, hint |-> ob.hint])
  IN  IF ans = "already" THEN <<r1, [ob EXCEPT !.st = "C"]>>
      ELSE IF ans = "abort" THEN <<r1, [ob EXCEPT !.st = "E"]>>
      ELSE LET fail == w \in SeqSet(r.ws.open_fail)
               r2 == Emit(r1, [k |-> "open", w |-> w, res |-> IF fail THEN "err" ELSE "ok"])
               wf == LET I == {j \in 1..Len(r.ws.write_fail) : r.ws.write_fail[j][1] = w} IN
                     IF I = {} THEN 0 ELSE r.ws.write_fail[CHOOSE j \in I : TRUE][2]
               ob1 == [ob EXCEPT !.w = w, !.ws = "idle", !.wfail = wf]
           IN  IF fail THEN Error(r2, ob1, FALSE)
               ELSE <<r2, [ob1 EXCEPT !.ws = "opened", !.left = ob.tl, !.bwsbn = 0]>>

\* write_blocks(sbn_start): flush completed blocks in order; returns <<r, ob, ok>>
RECURSIVE Flush(_, _, _, _, _, _)
Flush(S, r, o, ob, sbn, fuel) ==
  IF ob.ws # "opened" \/ ob.tl = 0 \/ fuel = 0 THEN <<r, ob, TRUE>>
  ELSE IF ~(sbn >= ob.boff /\ sbn - ob.boff < ob.nslots) THEN <<r, ob, TRUE>>
  ELSE LET blk == ob.blocks[sbn] IN
       IF ~blk.done THEN <<r, ob, TRUE>>
       ELSE IF ob.bwsbn # sbn THEN <<r, ob, TRUE>>
       ELSE
       LET bytes == Min2(ob.left, BlockBytes(ob.tl, PE(S, o), PB(S, o), sbn))
           nw == ob.nwrite + 1
           fails == o # 0 /\ ob.wfail = nw
           r1 == IF o = 0 THEN r ELSE Emit(r, [k |-> "write", w |-> ob.w, len |-> bytes, tot |-> ob.tl - ob.left + bytes, res |-> IF fails THEN "err" ELSE "ok"])
       IN  IF fails /\ Var(r) # "failed-write-ignored" THEN <<r1, [ob EXCEPT !.nwrite = nw], FALSE>>
           ELSE
           LET left1 == ob.left - bytes
               ob1 == [ob EXCEPT !.nwrite = nw, !.left = left1, !.bwsbn = sbn + 1, !.abytes = @ - blk.size, !.alloc = @ - 1,
                                 !.bad = @ \/ blk.poison,
                                 !.boff = IF sbn = ob.boff THEN @ + 1 ELSE @,
                                 !.nslots = IF sbn = ob.boff THEN @ - 1 ELSE @,
                                 !.blocks = IF sbn = ob.boff THEN [b \in DOMAIN @ \ {sbn} |-> @[b]] ELSE [@ EXCEPT ![sbn].size = 0]]
           IN  IF left1 = 0 \/ (Var(r) = "complete-one-symbol-early" /\ left1 <= PE(S, o)) THEN
                  \* all bytes written: the MD5 differs iff altered bytes were written; it is compared when the FDT
                  \* announced one and the check is enabled
                  LET md5bad == o # 0 /\ ob1.bad /\ SOb(S, o).md5 # "" /\ r.ws.md5
                      c == IF md5bad THEN Error(r1, ob1, FALSE) ELSE Complete(r1, ob1) IN <<c[1], c[2], TRUE>>
               ELSE Flush(S, r1, o, ob1, sbn + 1, fuel - 1)

\* push_to_block2 + close-object flag; returns <<r, ob, ok>>
ToBlock(S, r, o, ob, p) ==
  IF ob.tl = 0 THEN
     IF ob.w = 0 /\ ob.ws = "none" /\ ob.st = "R" THEN <<r, ob, TRUE>>
     ELSE LET c == Complete(r, ob) IN <<c[1], c[2], TRUE>>
  ELSE IF p.sbn < ob.boff THEN <<r, ob, TRUE>>
  ELSE
  LET off == p.sbn - ob.boff IN
  IF off >= ob.nslots /\ off > 4096 THEN <<r, [ob EXCEPT !.st = "E"], FALSE>>
  ELSE
  LET ob1 == IF off >= ob.nslots
             THEN [ob EXCEPT !.nslots = off + 1, !.blocks = [b \in DOMAIN @ \cup (ob.boff..p.sbn) |-> IF b \in DOMAIN @ THEN @[b] ELSE NewBlk]]
             ELSE ob
      blk == ob1.blocks[p.sbn] IN
  IF blk.done THEN <<r, ob1, TRUE>>
  ELSE
  LET E == PE(S, o) B == PB(S, o)
      k == IF p.sbl >= 0 THEN p.sbl ELSE BlockSyms(ob1.tl, E, B, p.sbn)
      blen == IF p.sbl >= 0 THEN p.sbl * E ELSE BlockBytes(ob1.tl, E, B, p.sbn)
      tooBig == ~blk.init /\ (blen > MaxAlloc(r, o) \/ (ob1.alloc >= 2 /\ ob1.abytes + blen > MaxAlloc(r, o)))
      badCodec == ~blk.init /\ IsRSch(Sch(S, o)) /\ (PPar(S, o) = 0 \/ k = 0)
  IN  IF tooBig \/ badCodec THEN <<r, [ob1 EXCEPT !.st = "E"], FALSE>>
      ELSE
      LET syms == blk.syms \cup {p.esi}
          done == Decodable(Sch(S, o), k, PPar(S, o), syms, r.fd, Var(r))
          \* first copy wins: a symbol already held is not replaced
          pz == blk.poison \/ (r.alt /\ p.esi \notin blk.syms)
          ob2 == [ob1 EXCEPT !.blocks[p.sbn] = [syms |-> syms, done |-> done, init |-> TRUE, size |-> blen, poison |-> pz],
                             !.alloc = IF blk.init THEN @ ELSE @ + 1, !.abytes = IF blk.init THEN @ ELSE @ + blen]
      IN  IF done THEN Flush(S, r, o, ob2, p.sbn, ob2.nslots + 2) ELSE <<r, ob2, TRUE>>

PushToBlock(S, r, o, ob, p) ==
  LET a == ToBlock(S, r, o, ob, p) IN
  IF ~a[3] THEN a
  ELSE IF p.B /\ a[2].fdt # None /\ a[2].st = "R"
       THEN LET e == Error(a[1], a[2], TRUE) IN <<e[1], e[2], TRUE>>
       ELSE a

\* push_from_cache: replay cached packets in arrival order
RECURSIVE Replay(_, _, _, _, _)
Replay(S, r, o, ob, q) ==
  IF q = <<>> THEN <<r, ob>>
  ELSE LET a == PushToBlock(S, r, o, ob, S.pkts[Head(q)]) IN
       IF ~a[3] THEN Error(a[1], a[2], FALSE)
       ELSE Replay(S, a[1], o, a[2], Tail(q))
FromCache(S, r, o, ob) ==
  IF ob.boff + ob.nslots = 0 THEN <<r, ob>>
  ELSE LET a == Replay(S, r, o, [ob EXCEPT !.cache = <<>>], ob.cache) IN <<a[1], [a[2] EXCEPT !.csize = 0]>>

\* ObjectReceiver::push
ObjPush(S, r, o, ob0, i, now) ==
  LET p == S.pkts[i] IN
  IF ob0.st # "R" THEN <<r, ob0>>
  ELSE
  LET ob1 == [ob0 EXCEPT !.fdt = IF o = 0 /\ @ = None THEN p.id ELSE @,
                         !.cenc = IF @ # None THEN @ ELSE IF p.cencx >= 0 THEN p.cencx ELSE IF o = 0 THEN 0 ELSE None]
      ob2 == IF ~ob1.oti /\ p.fti THEN [ob1 EXCEPT !.oti = TRUE, !.tl = IF @ = None THEN p.fl ELSE @] ELSE ob1
      ob3 == InitPart(S, o, ob2)
      w == InitWriter(S, r, o, ob3, now)
  IN  IF w[2].st # "R" THEN w
      ELSE LET c == FromCache(S, w[1], o, w[2]) IN
           IF ~c[2].oti THEN
              \* cache the packet
              IF c[2].csize >= MaxAlloc(r, o) THEN Error(c[1], c[2], FALSE)
              ELSE <<c[1], [c[2] EXCEPT !.cache = Append(@, i), !.csize = @ + p.size]>>
           ELSE LET a == PushToBlock(S, c[1], o, c[2], p) IN
                IF ~a[3] THEN Error(a[1], a[2], FALSE) ELSE <<a[1], a[2]>>

\* ObjectReceiver::attach_fdt; returns <<r, ob, attached>>
Attach(S, r, o, ob, id, now) ==
  IF ob.fdt # None \/ ~HasFdt(S, id) \/ o \notin SeqSet(SFdt(S, id).files) THEN <<r, ob, FALSE>>
  ELSE
  LET f == SFdt(S, id)
      ob1 == [ob EXCEPT !.cenc = IF @ = None THEN SOb(S, o).cenc ELSE @,
                        !.tl = IF @ = None THEN SOb(S, o).L ELSE @, !.oti = TRUE, !.fdt = id,
                        !.hint = f.exp, !.nocache = SOb(S, o).cache[1] = "nocache"]
      ob2 == InitPart(S, o, ob1)
      w == InitWriter(S, r, o, ob2, now)
  IN  IF w[2].st = "R" /\ w[2].tl = 0 /\ w[2].w # 0 THEN LET c == Complete(w[1], w[2]) IN <<c[1], c[2], TRUE>>
      ELSE LET c == FromCache(S, w[1], o, w[2])
               fl == IF Var(r) = "no-flush-at-attach" THEN <<c[1], c[2], TRUE>> ELSE Flush(S, c[1], o, c[2], 0, c[2].nslots + 2)
               e == IF fl[3] THEN <<fl[1], fl[2]>> ELSE Error(fl[1], fl[2], FALSE)
               d == FromCache(S, e[1], o, e[2])
           IN  <<d[1], d[2], TRUE>>

-----------------------------------------------------------------------------
(* Receiver *)
\* check_object_state: move finished objects to the registries
RECURSIVE GcErr(_, _)
GcErr(S, r) == IF Cardinality(r.errors) <= r.rcfg.max_err THEN r
               ELSE LET o == CHOOSE x \in r.errors : \A y \in r.errors : S.toinum[x] <= S.toinum[y] IN
                    GcErr(S, [r EXCEPT !.errors = @ \ {o}, !.objects = [x \in DOMAIN @ \ {o} |-> @[x]]])
CheckState(S, r, o) ==
  IF o \notin DOMAIN r.objects THEN r
  ELSE LET ob == r.objects[o]
           rm == [r EXCEPT !.objects = [x \in DOMAIN @ \ {o} |-> @[x]]] IN
       IF ob.st = "R" THEN r
       ELSE IF ob.st = "C" THEN
            IF ob.nocache THEN rm ELSE [rm EXCEPT !.completed = [x \in DOMAIN @ \cup {o} |-> IF x = o THEN ob.hint ELSE @[x]]]
       ELSE GcErr(S, [r EXCEPT !.errors = @ \cup {o}]) \* the object itself is removed below
RemoveObj(r, o) == [r EXCEPT !.objects = [x \in DOMAIN @ \ {o} |-> @[x]]]
CheckState2(S, r, o) ==
  LET r1 == CheckState(S, r, o) IN
  IF o \in DOMAIN r1.objects /\ r1.objects[o].st # "R" THEN RemoveObj(r1, o) ELSE r1

\* estimated sender time and expiry of an instance
ServerTime(r, id, now) == IF id \in DOMAIN r.foff THEN now - r.foff[id] ELSE now
IsExpiredNow(S, r, id, now) == r.rcfg.expiry /\ Var(r) # "expiry-ignored" /\ ServerTime(r, id, now) > SFdt(S, id).exp
UpdExpired(S, r, id, now) == IF ~r.fexp[id] /\ IsExpiredNow(S, r, id, now) THEN [r EXCEPT !.fexp[id] = TRUE] ELSE r

\* create_obj: attach to the first unexpired current instance (newest first) listing the object
RECURSIVE TryAttach(_, _, _, _, _, _)
TryAttach(S, r, o, ob, ids, now) ==
  IF ids = <<>> THEN <<r, ob>>
  ELSE LET id == Head(ids)
           r1 == UpdExpired(S, r, id, now) IN
       IF r1.fexp[id] THEN TryAttach(S, r1, o, ob, Tail(ids), now)
       ELSE LET a == Attach(S, r1, o, ob, id, now) IN
            IF a[3] THEN <<a[1], a[2]>> ELSE TryAttach(S, a[1], o, a[2], Tail(ids), now)

PushObj(S, r, i, now) ==
  LET p == S.pkts[i] o == p.o first == p.sbn = 0 /\ p.esi = 0 IN
  IF o \in DOMAIN r.completed /\ ((r.rcfg.once /\ Var(r) # "once-ignored") \/ ~first) THEN r
  ELSE
  LET r0 == IF o \in DOMAIN r.completed THEN [r EXCEPT !.completed = [x \in DOMAIN @ \ {o} |-> @[x]]] ELSE r IN
  IF o \in r0.errors /\ ~first THEN r0
  ELSE
  LET r1 == IF o \in r0.errors THEN [r0 EXCEPT !.errors = @ \ {o}] ELSE r0
      c == IF o \in DOMAIN r1.objects THEN <<r1, r1.objects[o]>> ELSE TryAttach(S, r1, o, NewObj, r1.fcur, now)
      a == ObjPush(S, c[1], o, c[2], i, now)
      r2 == [a[1] EXCEPT !.objects = [x \in DOMAIN @ \cup {o} |-> IF x = o THEN a[2] ELSE @[x]]]
  IN  CheckState2(S, r2, o)

\* attach_latest_fdt_to_objects (HashMap order: the model uses increasing object number; callbacks are compared per writer)
RECURSIVE AttachAll(_, _, _, _, _)
AttachAll(S, r, os, id, now) ==
  IF os = <<>> THEN r
  ELSE LET o == Head(os) IN
       IF o \notin DOMAIN r.objects THEN AttachAll(S, r, Tail(os), id, now)
       ELSE LET a == Attach(S, r, o, r.objects[o], id, now)
                r1 == [a[1] EXCEPT !.objects[o] = a[2]]
                r2 == IF a[3] THEN CheckState2(S, r1, o) ELSE r1
            IN  AttachAll(S, r2, Tail(os), id, now)

\* update_expiration_date_of_completed_objects_using_latest_fdt
RECURSIVE UpdCache(_, _, _, _)
UpdCache(S, r, os, id) ==
  IF os = <<>> THEN r
  ELSE LET o == Head(os) IN
       IF o \notin DOMAIN r.completed THEN UpdCache(S, r, Tail(os), id)
       ELSE LET kind == SOb(S, o).cache[1]
                new == SFdt(S, id).exp
                old == r.completed[o]
                upd == kind = "none" /\ (IF new > old THEN new - old ELSE old - new) > 1 IN
            IF upd THEN UpdCache(S, Emit([r EXCEPT !.completed[o] = new], [k |-> "cc", o |-> o]), Tail(os), id)
            ELSE UpdCache(S, r, Tail(os), id)

PushFdt(S, r, i, now) ==
  LET p == S.pkts[i] id == p.id IN
  IF r.rcfg.once /\ id \in SeqSet(r.fcur) THEN r
  ELSE
  LET fr0 == IF id \in DOMAIN r.fr THEN r.fr[id] ELSE [st |-> "R", ob |-> NewObj] IN
  IF fr0.st # "R" THEN [r EXCEPT !.fr = [x \in DOMAIN @ \cup {id} |-> IF x = id THEN fr0 ELSE @[x]]]
  ELSE
  LET r1 == [r EXCEPT !.foff = IF p.sct THEN [x \in DOMAIN @ \cup {id} |-> IF x = id THEN now - p.scts ELSE @[x]] ELSE @,
                      !.fexp = [x \in DOMAIN @ \cup {id} |-> IF x = id /\ x \notin DOMAIN @ THEN FALSE ELSE IF x = id THEN @[x] ELSE @[x]]]
      a == ObjPush(S, r1, 0, fr0.ob, i, now)
      ob == a[2]
      st1 == IF ob.st = "C" THEN "C" ELSE IF ob.st \in {"I", "E"} THEN "E" ELSE "R"
      r2 == a[1]
  IN  IF st1 # "C" THEN [r2 EXCEPT !.fr = [x \in DOMAIN @ \cup {id} |-> IF x = id THEN [st |-> st1, ob |-> ob] ELSE @[x]]]
      ELSE
      LET r3 == UpdExpired(S, r2, id, now) IN
      IF r3.fexp[id] THEN [r3 EXCEPT !.fr = [x \in DOMAIN @ \cup {id} |-> IF x = id THEN [st |-> "X", ob |-> ob] ELSE @[x]]]
      ELSE
      LET r4 == Emit([r3 EXCEPT !.fr = [x \in DOMAIN @ \ {id} |-> @[x]], !.fcur = <<id>> \o @], [k |-> "fdtrx", id |-> id])
          files == SFdt(S, id).files
          r5 == AttachAll(S, r4, SortSeq(SetToSeq(DOMAIN r4.objects), LAMBDA x, y : x < y), id, now)
          \* gc_object_completed: an instance without any File element does not collect anything
          r6 == IF files = <<>> THEN r5 ELSE [r5 EXCEPT !.completed = [x \in DOMAIN @ \cap SeqSet(files) |-> @[x]]]
          r7 == UpdCache(S, r6, files, id)
      IN  IF Len(r7.fcur) > 10 THEN [r7 EXCEPT !.fcur = SubSeq(@, 1, 10)] ELSE r7

\* Drop of every object being received: error for writers still idle / opened
RECURSIVE DropObjs(_, _)
DropObjs(r, os) ==
  IF os = <<>> THEN [r EXCEPT !.objects = <<>>]
  ELSE LET ob == r.objects[Head(os)] IN
       DropObjs(IF ob.w > 0 /\ ob.ws \in {"idle", "opened"} /\ Var(r) # "no-terminal-call-at-drop"
                THEN Emit(r, [k |-> "error", w |-> ob.w]) ELSE r, Tail(os))
DropAll(r) == DropObjs(r, SetToSeq(DOMAIN r.objects))

\* MultiReceiver::push for the session's endpoint
Push(S, r0, i, now, fd, alt) ==
  LET p == S.pkts[i]
      r == [r0 EXCEPT !.cb = <<>>, !.fd = fd, !.alt = alt] IN
  IF p.A THEN
     IF ~r.open THEN r
     ELSE LET r1 == IF p.k = "fdt" /\ p.id >= 0 THEN PushFdt(S, r, i, now) ELSE r
              r2 == Emit(DropAll(r1), [k |-> "sclosed"])
          IN  [InitRx(r.rcfg, r.ws) EXCEPT !.cb = r2.cb, !.nextw = r2.nextw]
  ELSE
  LET r1 == IF r.open THEN r ELSE Emit([r EXCEPT !.open = TRUE], [k |-> "sopen"]) IN
  IF p.k = "fdt" THEN PushFdt(S, r1, i, now) ELSE PushObj(S, r1, i, now)

\* Receiver::cleanup without elapsed time-outs: expired instances are forgotten
Cleanup(S, r0, now) ==
  LET r == [r0 EXCEPT !.cb = <<>>] IN
  [r EXCEPT !.fr = [x \in {y \in DOMAIN @ : @[y].st \in {"C", "R"}} |-> @[x]]]

Drop(r0) ==
  LET r == [r0 EXCEPT !.cb = <<>>] IN
  IF ~r.open THEN r ELSE DropAll(Emit(r, [k |-> "sclosed"]))

-----------------------------------------------------------------------------
(* projection compared with the hook snapshot *)
WsNum(ws) == CASE ws = "none" -> 0 [] ws = "idle" -> 1 [] ws = "opened" -> 2 [] ws = "closed" -> 3 [] ws = "error" -> 4
StNum(st) == CASE st = "R" -> 0 [] st = "C" -> 1 [] st = "I" -> 2 [] st = "E" -> 3
ProjRx(r) == [ n |-> Cardinality(DOMAIN r.objects), ne |-> Cardinality(r.errors),
               objs |-> [o \in DOMAIN r.objects |-> [st |-> StNum(r.objects[o].st), cp |-> Len(r.objects[o].cache), w |-> WsNum(r.objects[o].ws),
                                                     fdt |-> r.objects[o].fdt, bo |-> r.objects[o].boff, oti |-> r.objects[o].oti]],
               done |-> DOMAIN r.completed, err |-> r.errors, fc |-> r.fcur,
               fr |-> {id \in DOMAIN r.fr : TRUE} ]
=============================================================================
