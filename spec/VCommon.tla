------------------------------ MODULE VCommon ------------------------------
(* Operators shared by every trace-validation ("Mon_*") specification.     *)
(*                                                                         *)
(* A Mon specification consumes one ndjson line per step.  A monitor never *)
(* blocks: a false property conjunct is REPORTED (one "VIOL" line on       *)
(* stdout, parsed by bin/check) and the run goes on, because one file      *)
(* holds thousands of behaviours and all violations are needed in order to *)
(* separate known findings from new ones.  The postcondition checks that   *)
(* every line was consumed.                                                *)
EXTENDS Naturals, Sequences, TLC, Json

\* Report(prop, what, beh, line, witness) is TRUE and prints a violation record
Report(prop, what, beh, line, wit) ==
    PrintT(<<"VIOL", ToJson([property |-> prop, what |-> what, beh |-> beh,
                             line |-> line, witness |-> wit])>>)

\* Check(cond, ...) is always TRUE; prints when cond is false
\* (IF, not \/ : inside an action TLC splits a disjunction into separate
\* successor computations and would evaluate Report even when cond holds)
Check(cond, prop, what, beh, line, wit) == IF cond THEN TRUE ELSE Report(prop, what, beh, line, wit)

Has(r, k) == k \in DOMAIN r
=============================================================================
