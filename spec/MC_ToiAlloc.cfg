SPECIFICATION Spec
CONSTANTS M = 8 Start = 6 MaxLive = 5 Depth = 12 NObjs = 3
INVARIANT C15_Inv
CHECK_DEADLOCK FALSE
