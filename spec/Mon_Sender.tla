------------------------------ MODULE Mon_Sender ------------------------------
(* Trace validation of recorded sender traces against the property monitors *)
(* of SenderProps.tla: one ndjson line per step, many behaviours per file    *)
(* (each starts with a "reset" event).  Never blocks; prints violations.     *)
EXTENDS SenderProps, VCommon, IOUtils
Rec == ndJsonDeserialize(IOEnv.TRACE)
VARIABLES l, m
Init == l = 1 /\ m = [beh |-> -1]
Skip(e) == e.ev = "reset" /\ Has(e, "skip")
Next == /\ l <= Len(Rec)
        /\ LET e == Rec[l] IN
           IF e.ev = "reset"
           THEN m' = IF Has(e, "skip") THEN [beh |-> -1] ELSE NewMon(e)
           ELSE IF m.beh = -1 THEN m' = m
           ELSE /\ LET v == Viol(m, e) IN \A i \in 1..Len(v) : Report(v[i][1], v[i][2], m.beh, l, v[i][4])
                /\ m' = IF Has(e, "res") /\ e.res = "panic" THEN [beh |-> -1]   \* nothing is judged after a panic
                        ELSE Step(m, e)
        /\ l' = l + 1
Spec == Init /\ [][Next]_<<l, m>>
AllConsumed == IF TLCGet("stats").diameter = Len(Rec) + 1 THEN TRUE
               ELSE PrintT(<<"UNCONSUMED", TLCGet("stats").diameter, Len(Rec)>>) /\ FALSE
=============================================================================
