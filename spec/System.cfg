SPECIFICATION Spec
CONSTANTS ScenSet = {1, 2, 3, 4, 5, 6, 7} Variant = "ok"
INVARIANT ShowBad NoViolation
CHECK_DEADLOCK FALSE
