------------------------------ MODULE MultiRecv ------------------------------
(***************************************************************************)
(* Mechanism specification of MultiReceiver's demultiplexing and TSI        *)
(* filter (receiver/multireceiver.rs, receiver/tsifilter.rs) with the C18   *)
(* filter property checked on it, and the behaviour generators of the C18   *)
(* check.                                                                  *)
(*                                                                         *)
(* Endpoints are numbered g*10 + s (group g, source s, s = 0: no source     *)
(* address).  The filter keeps reference counts that are REMOVED when they  *)
(* reach zero (HashMap entries), a removal of an absent entry is a no-op.   *)
(*   tsi[t][ep]   count of add_listen_tsi(ep, t) not yet removed            *)
(*   bypass[ep]   count of add_listen_all_tsi(ep) not yet removed           *)
(*   filtering    enable_tsi_filtering                                      *)
(***************************************************************************)
EXTENDS Naturals, Sequences, FiniteSets, TLC, Json
CONSTANTS Family, Depth, L1, L2, L3
Lens == IF L3 > 0 THEN <<L1, L2, L3>> ELSE IF L2 > 0 THEN <<L1, L2>> ELSE <<L1>>

EPs  == {10, 11, 20, 21}
TSIs == {1, 2}
NoSrc(ep) == (ep \div 10) * 10

VARIABLES tsi, bypass, filtering, hist, adds, addsAll, f0
vars == <<tsi, bypass, filtering, hist, adds, addsAll, f0>>

\* map with absent = 0
Get(f, k) == IF k \in DOMAIN f THEN f[k] ELSE 0
Inc(f, k) == [x \in DOMAIN f \cup {k} |-> IF x = k THEN Get(f, k) + 1 ELSE f[x]]
Dec(f, k) == IF k \notin DOMAIN f THEN f
             ELSE IF f[k] > 1 THEN [f EXCEPT ![k] = @ - 1]
             ELSE [x \in DOMAIN f \ {k} |-> f[x]]

Init == /\ tsi = [t \in TSIs |-> <<>>] /\ bypass = <<>> /\ filtering \in BOOLEAN /\ hist = <<>>
        /\ adds = [k \in EPs \X TSIs |-> 0] /\ addsAll = [ep \in EPs |-> 0] /\ f0 = filtering

Add(ep, t)    == /\ tsi' = [tsi EXCEPT ![t] = Inc(@, ep)] /\ UNCHANGED <<bypass, filtering>>
                 /\ hist' = Append(hist, <<"listen", "add", ep, t>>)
                 /\ adds' = [adds EXCEPT ![<<ep, t>>] = @ + 1] /\ UNCHANGED addsAll
Remove(ep, t) == /\ tsi' = [tsi EXCEPT ![t] = Dec(@, ep)] /\ UNCHANGED <<bypass, filtering>>
                 /\ hist' = Append(hist, <<"listen", "remove", ep, t>>)
                 /\ adds' = [adds EXCEPT ![<<ep, t>>] = IF @ > 0 THEN @ - 1 ELSE 0] /\ UNCHANGED addsAll
AddAll(ep)    == /\ bypass' = Inc(bypass, ep) /\ UNCHANGED <<tsi, filtering>>
                 /\ hist' = Append(hist, <<"listen", "addall", ep, 0>>)
                 /\ addsAll' = [addsAll EXCEPT ![ep] = @ + 1] /\ UNCHANGED adds
RemoveAll(ep) == /\ bypass' = Dec(bypass, ep) /\ UNCHANGED <<tsi, filtering>>
                 /\ hist' = Append(hist, <<"listen", "removeall", ep, 0>>)
                 /\ addsAll' = [addsAll EXCEPT ![ep] = IF @ > 0 THEN @ - 1 ELSE 0] /\ UNCHANGED adds
SetFilter(b)  == /\ filtering' = b /\ UNCHANGED <<tsi, bypass, adds, addsAll>>
                 /\ hist' = Append(hist, <<"listen", IF b THEN "filter_on" ELSE "filter_off", 0, 0>>)

Next == /\ Len(hist) < Depth /\ UNCHANGED f0
        /\ \/ \E ep \in EPs, t \in TSIs : Add(ep, t) \/ Remove(ep, t)
           \/ \E ep \in EPs : AddAll(ep) \/ RemoveAll(ep)
           \/ \E b \in BOOLEAN : SetFilter(b)
Spec == Init /\ [][Next]_vars

\* TSIFilter::is_valid as the code computes it
IsValid(ep, t) == \/ ep \in DOMAIN bypass
                  \/ ep \in DOMAIN tsi[t]
                  \/ NoSrc(ep) \in DOMAIN tsi[t]
Processed(ep, t) == ~filtering \/ IsValid(ep, t)

\* C18 (filter clause) stated on the history of calls only: "added more often than removed",
\* a removal of an absent entry being ignored (the count never goes below zero)
AcceptedByHistory(ep, t) == addsAll[ep] > 0 \/ adds[<<ep, t>>] > 0 \/ adds[<<NoSrc(ep), t>>] > 0
C18_Filter == \A ep \in EPs, t \in TSIs : Processed(ep, t) <=> (~filtering \/ AcceptedByHistory(ep, t))
MCView == <<tsi, bypass, filtering, adds, addsAll, Len(hist)>>

-----------------------------------------------------------------------------
(* generation: every sequence of exactly Depth (and fewer) listen operations, then a probe of all 8 keys *)
\* streams of the harness behaviour: index k (0-based) = (session of TSI t, endpoint ep)
StreamList == << <<1, 10>>, <<1, 11>>, <<1, 20>>, <<1, 21>>, <<2, 10>>, <<2, 11>>, <<2, 20>>, <<2, 21>> >>
Probes == [i \in 1..16 |-> IF i % 2 = 1 THEN <<"stream", (i + 1) \div 2 - 1>> ELSE <<"p", 1>>]
\* interleavings of k streams of Lens[i] packets each: a merge is a function position -> stream
NTot == LET RECURSIVE Sum(_) Sum(i) == IF i = 0 THEN 0 ELSE Sum(i - 1) + Lens[i] IN Sum(Len(Lens))
Merges == {g \in [1..NTot -> 1..Len(Lens)] : \A s \in 1..Len(Lens) : Cardinality({i \in 1..NTot : g[i] = s}) = Lens[s]}
RECURSIVE MergeOps(_, _, _)
MergeOps(g, i, cnt) == IF i > NTot THEN <<>>
                       ELSE << <<"stream", g[i] - 1>>, <<"p", cnt[g[i]] + 1>> >> \o MergeOps(g, i + 1, [cnt EXCEPT ![g[i]] = @ + 1])
Emit == IF Family = "filter"
        THEN PrintT(<<"REPLAY", ToJson([fam |-> "filter", filtering |-> f0, ops |-> hist \o Probes])>>)
        ELSE hist # <<>> \/ ~f0 \/ \A g \in Merges : PrintT(<<"REPLAY", ToJson([fam |-> "inter", ops |-> MergeOps(g, 1, [s \in 1..Len(Lens) |-> 0])])>>)
=============================================================================
