---------------------------- MODULE Mon_Partition ----------------------------
(* C07, implementation -> specification: every record written by           *)
(* `vharness partition` holds, for one (B, E) pair and every L in 0..lmax, *)
(* what flute computed: the 4-tuple of block_partitioning, the run-length  *)
(* encoded block_length of every block, and the 4-tuples computed by the   *)
(* receiver from the B it rebuilds out of a RaptorQ / Raptor EXT_FTI       *)
(* produced by flute's own packet builder.  Each value is compared with    *)
(* Partition.tla.                                                          *)
EXTENDS Partition, VCommon, IOUtils
Rec == ndJsonDeserialize(IOEnv.TRACE)
VARIABLE l
Init == l = 1

QuadOf(x) == <<x.v[1], x.v[2], x.v[3], x.v[4]>>
RleOf(x)  == [i \in 1..Len(x.v) |-> <<x.v[i][1], x.v[i][2]>>]

JudgeOne(r, L) ==
    LET q   == r.q[L + 1]
        exp == Quad(L, r.E, r.B)
        w   == <<r.B, r.E, L>>
    IN  /\ Check(q.k # "panic", "C07", "partition-panics", 0, l, w)
        /\ IF q.k # "ok" THEN TRUE ELSE
           /\ Check(QuadOf(q) = exp, "C07", "partition-differs-from-rfc5052", 0, l, <<w, q.v, exp>>)
           /\ LET rl == r.rle[L + 1] IN
              /\ Check(rl.k # "panic", "C07", "block-length-panics", 0, l, w)
              /\ IF rl.k # "ok" THEN TRUE
                 ELSE Check(RleOf(rl) = BlockBytesRle(L, r.E, r.B), "C07", "block-byte-lengths",
                            0, l, <<w, rl.v, BlockBytesRle(L, r.E, r.B)>>)
           /\ \A z \in {"qz6", "qz1"} :
                 LET qz == r[z][L + 1] IN
                 /\ Check(qz.k # "panic", "C07", "receiver-partition-panics", 0, l, <<w, z>>)
                 /\ IF qz.k # "ok" THEN TRUE
                    ELSE Check(QuadOf(qz) = exp, "C07", "receiver-partition-differs",
                               0, l, <<w, z, qz.v, exp>>)

Next == /\ l <= Len(Rec)
        /\ LET r == Rec[l] IN \A L \in 0..r.lmax : JudgeOne(r, L)
        /\ l' = l + 1
Spec == Init /\ [][Next]_l
AllConsumed == IF TLCGet("stats").diameter = Len(Rec) + 1 THEN TRUE
               ELSE PrintT(<<"UNCONSUMED", TLCGet("stats").diameter, Len(Rec)>>) /\ FALSE
=============================================================================
