--------------------------- MODULE PartitionCore ---------------------------
(***************************************************************************)
(* RFC 5052 section 9.1 block partitioning, transcribed from the RFC text, *)
(* plus the derived byte layout used by every other specification.         *)
(*                                                                         *)
(*   Input:  B  maximum source block length (symbols)                      *)
(*           L  transfer length (octets)                                   *)
(*           E  encoding symbol length (octets)                            *)
(*   T = ceil(L/E), N = ceil(T/B), A_large = ceil(T/N), A_small =          *)
(*   floor(T/N), I = T - A_small*N; the first I blocks have A_large        *)
(*   symbols, the remaining N-I blocks have A_small symbols.               *)
(*                                                                         *)
(* Non-recursive integer operators only, so that the same text is read by  *)
(* TLC (32-bit integers, small grids) and by Apalache (unbounded integers, *)
(* 48-bit boundary records).  Partition.tla adds the recursive parts.      *)
(***************************************************************************)
EXTENDS Integers

\* @type: (Int, Int) => Int;
Ceil(a, b)  == (a + b - 1) \div b
Floor(a, b) == a \div b
Min2(a, b)  == IF a < b THEN a ELSE b
Max2(a, b)  == IF a > b THEN a ELSE b

\* number of symbols and number of blocks
T(L, E)    == Ceil(L, E)
N(L, E, B) == Ceil(T(L, E), B)

ALarge(L, E, B)  == IF N(L, E, B) = 0 THEN 0 ELSE Ceil(T(L, E), N(L, E, B))
ASmall(L, E, B)  == IF N(L, E, B) = 0 THEN 0 ELSE Floor(T(L, E), N(L, E, B))
NbLarge(L, E, B) == IF N(L, E, B) = 0 THEN 0 ELSE T(L, E) - ASmall(L, E, B) * N(L, E, B)

\* the 4-tuple flute's block_partitioning returns
\* @type: (Int, Int, Int) => <<Int, Int, Int, Int>>;
Quad(L, E, B) == <<ALarge(L, E, B), ASmall(L, E, B), NbLarge(L, E, B), N(L, E, B)>>

\* number of source symbols of block b (0-based)
BlockSyms(L, E, B, b) == IF b < NbLarge(L, E, B) THEN ALarge(L, E, B) ELSE ASmall(L, E, B)

\* number of symbols in blocks before block b
SymsBefore(L, E, B, b) ==
    IF b <= NbLarge(L, E, B)
    THEN b * ALarge(L, E, B)
    ELSE NbLarge(L, E, B) * ALarge(L, E, B) + (b - NbLarge(L, E, B)) * ASmall(L, E, B)

\* byte offset of block b and of symbol (b, esi)
BlockOffset(L, E, B, b)    == SymsBefore(L, E, B, b) * E
SymOffset(L, E, B, b, esi) == (SymsBefore(L, E, B, b) + esi) * E

\* byte length of block b: only the last block of the object can be short
BlockBytes(L, E, B, b) ==
    LET off == BlockOffset(L, E, B, b)
        full == BlockSyms(L, E, B, b) * E
    IN  IF off + full <= L THEN full ELSE IF off >= L THEN 0 ELSE L - off

\* byte length of source symbol (b, esi): only the last symbol can be short
SymBytes(L, E, B, b, esi) ==
    LET off == SymOffset(L, E, B, b, esi)
    IN  IF off + E <= L THEN E ELSE IF off >= L THEN 0 ELSE L - off

\* receiver side: maximum source block length rebuilt from the number of
\* blocks Z carried by the RaptorQ / Raptor scheme specific information
BFromZ(L, Z, E) == Ceil(Ceil(L, Z), E)

=============================================================================
