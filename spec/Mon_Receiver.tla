----------------------------- MODULE Mon_Receiver -----------------------------
(* Trace validation of recorded receiver traces against ReceiverProps.tla.    *)
(* The file starts with the "session" events (the real sessions recorded from *)
(* the real sender), followed by the behaviours ("reset" ... "end").          *)
EXTENDS ReceiverProps, IOUtils
Rec == ndJsonDeserialize(IOEnv.TRACE)
\* the sessions are constants of the run (evaluated once), not part of the monitor state
SessIdx == {i \in 1..Len(Rec) : Rec[i].ev = "session"}
SS == [sid \in {Rec[i].sid : i \in SessIdx} |-> Rec[CHOOSE i \in SessIdx : Rec[i].sid = sid]]
VARIABLES l, m
Init == l = 1 /\ m = [beh |-> -1]
Next == /\ l <= Len(Rec)
        /\ LET e == Rec[l] IN
           IF e.ev = "session" THEN m' = m
           ELSE IF e.ev = "reset"
                THEN m' = IF Has(e, "skip") \/ e.sid \notin DOMAIN SS \/ SS[e.sid].skip # "" THEN [beh |-> -1] ELSE NewMon(e)
                ELSE IF m.beh = -1 THEN m' = m
                ELSE LET S == SS[m.sid] IN
                     /\ LET v == Viol(S, m, e) IN \A i \in 1..Len(v) : Report(v[i][1], v[i][2], m.beh, l, v[i][4])
                     \* vacuity statistics of the behaviour: accepted objects, recoverable ones (C02's antecedent), delivered ones
                     /\ (e.ev = "end" /\ ~m.dead /\ ~m.mutated) =>
                            PrintT(<<"STAT", ToJson([acc |-> Cardinality(Accepted(S)),
                                                     rec |-> Cardinality({o \in Accepted(S) : Recoverable(S, m.pushed, o)}),
                                                     del |-> Cardinality({o \in Accepted(S) : NExact(m, o) >= 1}),
                                                     fail |-> Cardinality({o \in Accepted(S) : NFailed(m, o) >= 1})])>>)
                     /\ m' = Step(S, m, e)
        /\ l' = l + 1
Spec == Init /\ [][Next]_<<l, m>>
AllConsumed == IF TLCGet("stats").diameter = Len(Rec) + 1 THEN TRUE
               ELSE PrintT(<<"UNCONSUMED", TLCGet("stats").diameter, Len(Rec)>>) /\ FALSE
=============================================================================
