----------------------------- MODULE Mon_Receiver -----------------------------
(* Trace validation of recorded receiver traces against ReceiverProps.tla.    *)
(* The file starts with the "session" events (the real sessions recorded from *)
(* the real sender), followed by the behaviours ("reset" ... "end").          *)
EXTENDS ReceiverProps, IOUtils
Rec == ndJsonDeserialize(IOEnv.TRACE)
VARIABLES l, m, SS
Init == l = 1 /\ m = [beh |-> -1] /\ SS = <<>>
Next == /\ l <= Len(Rec)
        /\ LET e == Rec[l] IN
           IF e.ev = "session"
           THEN /\ SS' = [x \in DOMAIN SS \cup {e.sid} |-> IF x = e.sid THEN e ELSE SS[x]]
                /\ m' = m
           ELSE /\ SS' = SS
                /\ IF e.ev = "reset"
                   THEN m' = IF Has(e, "skip") \/ e.sid \notin DOMAIN SS \/ SS[e.sid].skip # "" THEN [beh |-> -1] ELSE NewMon(e)
                   ELSE IF m.beh = -1 THEN m' = m
                   ELSE LET S == SS[m.sid] IN
                        /\ LET v == Viol(S, m, e) IN \A i \in 1..Len(v) : Report(v[i][1], v[i][2], m.beh, l, v[i][4])
                        /\ m' = Step(S, m, e)
        /\ l' = l + 1
Spec == Init /\ [][Next]_<<l, m, SS>>
AllConsumed == IF TLCGet("stats").diameter = Len(Rec) + 1 THEN TRUE
               ELSE PrintT(<<"UNCONSUMED", TLCGet("stats").diameter, Len(Rec)>>) /\ FALSE
=============================================================================
