------------------------------ MODULE Gen_Recv ------------------------------
(***************************************************************************)
(* Generators for the receiver-side checks.                                *)
(*                                                                         *)
(* Mode "sess": session shapes (sender behaviours whose packets the        *)
(* harness records with the real Sender).                                  *)
(* Mode "chan": fault schedules over the recorded sessions.  The abstract  *)
(* packet list of every real session is read from IOEnv.SESS, so that the  *)
(* enumeration (every subset, every multiset, every permutation, every     *)
(* join offset, every writer script, every corruption position) is over    *)
(* the packets the real sender produced.                                   *)
(***************************************************************************)
EXTENDS Integers, Sequences, FiniteSets, TLC, Json, IOUtils, SequencesExt, PartitionCore
CONSTANTS Mode, Family, MaxN

Oti(s, e, b, p, fti) == [scheme |-> s, E |-> e, B |-> b, par |-> p, fti |-> fti]
BigE == 2048     \* default OTI: the FDT fits one packet

-----------------------------------------------------------------------------
(* session shapes *)
\* <<content length, E, B>>: 1 block, 2 equal blocks, 2 unequal blocks, 3 blocks, empty, 1 symbol short
Shapes == << <<8, 4, 2>>, <<16, 4, 2>>, <<12, 4, 2>>, <<20, 4, 2>>, <<0, 4, 2>>, <<3, 4, 2>>, <<16, 4, 5>>, <<17, 4, 5>> >>
Schemes == <<0, 5, 129, 6, 1>>
\* small sessions (every subset / permutation is enumerated over them)
SmallP == (1..Len(Shapes)) \X (1..Len(Schemes)) \X {1, 2} \X {1, 2, 3} \X BOOLEAN \X {1, 2} \X {"full", "obt"}
          \X {0, 1, 2, 3} \X BOOLEAN \X BOOLEAN      \* ... x the session ends with a close-session packet
SmallB(p) ==
  LET sh == Shapes[p[1]] sc == Schemes[p[2]] pa == p[3] il == p[4] fti == p[5] cnt == p[6] md == p[7]
      ce == p[8] icenc == p[9]
      \* a compressed object is longer (header, trailer): larger symbols keep the session small
      E == IF ce = 0 THEN sh[2] ELSE sh[2] * 4 IN
  [ fam |-> "small",
    cfg |-> [scheme |-> 0, E |-> BigE, B |-> 8, interleave |-> il, queues |-> << <<0, 1>> >>, mode |-> md],
    objs |-> << [clen |-> sh[1], oti |-> Oti(sc, E, sh[3], IF sc = 0 THEN 0 ELSE pa, fti), count |-> cnt,
                 groups |-> <<"og">>, etag |-> "e1", cenc |-> ce, icenc |-> icenc, md5 |-> (pa = 1)] >>,
    ops |-> << <<"add", 1>>, <<"publish">>, <<"drain">> >> \o (IF p[10] /\ il = 1 THEN << <<"close">> >> ELSE <<>>) ]

\* clean-channel sessions: the configuration grid of C01
Cencs == {0, 1, 2, 3}
CleanP == (1..Len(Shapes)) \X (1..Len(Schemes)) \X {0, 1, 3} \X Cencs \X BOOLEAN \X BOOLEAN \X {"full", "obt"} \X {1, 2, 4}
          \X {0, 1, 3}
CleanB(p) ==
  LET sh == Shapes[p[1]] sc == Schemes[p[2]] pa == p[3] ce == p[4] fti == p[5] icenc == p[6] md == p[7] il == p[8] mx == p[9] IN
  [ fam |-> "clean",
    cfg |-> [scheme |-> 0, E |-> BigE, B |-> 8, interleave |-> il, queues |-> << <<0, mx>>, <<2, 1>> >>, mode |-> md,
             groups |-> <<"ig">>],
    objs |-> << [clen |-> sh[1] * 3, oti |-> Oti(sc, sh[2], sh[3], IF sc = 0 THEN 0 ELSE pa, fti), cenc |-> ce, icenc |-> icenc,
                 groups |-> <<"og", "x&y">>, etag |-> "\"e1\"", type |-> "text/x; a=\"b\"",
                 cache |-> IF pa = 0 THEN <<"maxstale", 0>> ELSE IF pa = 1 THEN <<"expires", 500>> ELSE <<"none", 0>>],
                \* two transfers; without content encoding the bytes come from a scripted stream / a file (one copy per
                \* transfer whatever the source: the stream must be rewound for the second transfer)
                [clen |-> sh[1], q |-> 2, oti |-> Oti(0, 3, 2, 0, TRUE), count |-> 2, cenc |-> ce, md5 |-> FALSE,
                 src |-> IF ce # 0 THEN "buffer" ELSE IF mx = 0 THEN "buffer" ELSE IF mx = 1 THEN "stream" ELSE "file"],
                [clen |-> 5, q |-> 0, count |-> 1, cache |-> <<"expiresat", 99999>>, loc |-> "http://h/p/o3 x.bin?q=1"] >>,
    ops |-> << <<"add", 1>>, <<"add", 2>>, <<"add", 3>>, <<"publish">>, <<"drain">>, <<"adv", 1500>>, <<"drain">> >> ]

\* carousel sessions for late join (three full cycles)
CarP == (1..Len(Shapes)) \X (1..Len(Schemes)) \X BOOLEAN \X BOOLEAN \X { <<"delay", 400>>, <<"interval", 900>> } \X {"full", "obt"} \X {1, 2}
        \X {0, 2, 3} \X {300, 2500} \X {1, 2}     \* ... x slots of the queue (1: the transfers of two objects never overlap)
CarB(p) ==
  LET sh == Shapes[p[1]] sc == Schemes[p[2]] fti == p[3] icenc == p[4] car == p[5] md == p[6] nobj == p[7] ce == p[8]
      E == IF ce = 0 THEN sh[2] ELSE sh[2] * 4 IN
  [ fam |-> "car",
    cfg |-> [scheme |-> 0, E |-> BigE, B |-> 8, interleave |-> 2, queues |-> << <<0, p[10]>> >>, mode |-> md,
             fdt_car |-> <<"delay", p[9]>>],
    objs |-> (<< [clen |-> sh[1], oti |-> Oti(sc, E, sh[3], IF sc = 0 THEN 0 ELSE 1, fti), car |-> car,
                  cenc |-> ce, icenc |-> icenc, md5 |-> (nobj = 1)] >>
              \o IF nobj = 2 THEN << [clen |-> 7, oti |-> Oti(0, 4, 2, 0, fti), car |-> car] >> ELSE <<>>),
    ops |-> (<< <<"add", 1>> >> \o (IF nobj = 2 THEN << <<"add", 2>> >> ELSE <<>>)
             \o << <<"publish">>, <<"drain">>, <<"adv", 1000>>, <<"drain">>, <<"adv", 1000>>, <<"drain">>, <<"adv", 1000>>, <<"drain">>,
                   <<"adv", 1000>>, <<"drain">> >>) ]

\* sessions for the expiry check: seconds ticks, FDT duration D, SCT on/off
ExpP == {10, 30, 3600} \X BOOLEAN \X BOOLEAN
ExpB(p) ==
  [ fam |-> "exp",
    cfg |-> [scheme |-> 0, E |-> BigE, B |-> 8, interleave |-> 1, queues |-> << <<0, 1>> >>, mode |-> "full",
             tick_us |-> 1000000, fdt_dur |-> p[1], sct |-> p[2], fdt_car |-> <<"delay", 100000>>],
    objs |-> << [clen |-> 8, oti |-> Oti(0, 4, 2, 0, p[3])] >>,
    ops |-> << <<"add", 1>>, <<"publish">>, <<"drain">> >> ]

\* sessions for the memory check: several objects (FDT-only or in-band OTI), FDT instances of several packets
MemP == BOOLEAN \X {0, 5} \X {2, 5} \X {"full", "obt"}
MemB(p) ==
  [ fam |-> "mem",
    cfg |-> [scheme |-> 0, E |-> 256, B |-> 4, interleave |-> 2, queues |-> << <<0, 2>> >>, mode |-> p[4]],
    objs |-> [o \in 1..p[3] |-> [clen |-> 40 + 8 * o, oti |-> Oti(p[2], 8, 3, IF p[2] = 0 THEN 0 ELSE 1, p[1])]],
    ops |-> FlattenSeq([o \in 1..p[3] |-> << <<"add", o>>, <<"publish">> >>]) \o << <<"drain">> >> ]

\* objects cut into more source blocks than the receiver pre-allocates (2048): the block window of the receiver moves
WideShapes == << <<2049, 1, 1>>, <<2500, 1, 1>>, <<4101, 1, 2>>, <<6200, 1, 1>> >>
WideP == (1..Len(WideShapes)) \X {0, 129, 1} \X BOOLEAN \X {1, 4}
WideB(p) ==
  LET sh == WideShapes[p[1]]
      \* Raptor: blocks of one symbol only (see known finding on Raptor blocks of 2 and 3 symbols)
      sc == IF p[2] = 1 /\ sh[3] # 1 THEN 129 ELSE p[2] IN
  [ fam |-> "wide",
    cfg |-> [scheme |-> 0, E |-> BigE, B |-> 8, interleave |-> p[4], queues |-> << <<0, 1>> >>, mode |-> "full"],
    objs |-> << [clen |-> sh[1], oti |-> Oti(sc, sh[2], sh[3], IF sc = 0 THEN 0 ELSE 1, p[3]), md5 |-> TRUE] >>,
    drain_cap |-> 30000,
    ops |-> << <<"add", 1>>, <<"publish">>, <<"drain">> >> ]

\* medium sessions (60 - 150 packets): several blocks of unequal length, real parity budgets, interleaving; used with
\* pseudo-random loss and duplication (family rloss)
MedShapes == << <<1000, 16, 10>>, <<5000, 64, 64>>, <<777, 7, 25>>, <<2041, 40, 13>> >>
MedP == (1..Len(MedShapes)) \X {0, 5, 129, 6, 1} \X {2, 8} \X {1, 3} \X BOOLEAN \X {1, 2}
MedB(p) ==
  LET sh == MedShapes[p[1]] sc == p[2] IN
  [ fam |-> "medium",
    cfg |-> [scheme |-> 0, E |-> BigE, B |-> 8, interleave |-> p[4], queues |-> << <<0, 1>> >>, mode |-> "full"],
    objs |-> << [clen |-> sh[1], oti |-> Oti(sc, sh[2], sh[3], IF sc = 0 THEN 0 ELSE p[3], p[5]), count |-> p[6], md5 |-> TRUE] >>,
    ops |-> << <<"add", 1>>, <<"publish">>, <<"drain">> >> ]

\* sessions for the expiry check with an FDT instance of several packets that is repeated by the FDT carousel before it
\* expires (duration 60 s, repeated every p[1] s), and an object whose transfer starts after the expiry (p[2])
Exp2P == {20, 50} \X {55, 70, 90} \X BOOLEAN
Exp2B(p) ==
  [ fam |-> "exp2",
    cfg |-> [scheme |-> 0, E |-> 400, B |-> 8, interleave |-> 1, queues |-> << <<0, 1>> >>, mode |-> "full",
             tick_us |-> 1000000, fdt_dur |-> 60, sct |-> TRUE, fdt_car |-> <<"delay", p[1]>>],
    objs |-> << [clen |-> 8, oti |-> Oti(0, 4, 2, 0, p[3]), start |-> p[2]] >>,
    ops |-> << <<"add", 1>>, <<"publish">>, <<"drain">>, <<"adv", 25>>, <<"drain">>, <<"adv", 25>>, <<"drain">>, <<"adv", 25>>, <<"drain">>,
               <<"adv", 25>>, <<"drain">> >> ]

\* many small objects: the FDT instance itself is an object of several source blocks (25 - 60 kB), sent with No-Code or
\* Reed-Solomon; in the second publication mode hundreds of small instances follow each other
ManyP == { <<60, 1024, 8, "full", 0>>, <<60, 512, 4, "obt", 0>>, <<150, 1024, 8, "full", 5>>, <<40, 256, 2, "full", 129>> }
ManyB(p) ==
  [ fam |-> "many",
    cfg |-> [scheme |-> p[5], E |-> p[2], B |-> p[3], par |-> IF p[5] = 0 THEN 0 ELSE 2, interleave |-> 2, queues |-> << <<0, 3>> >>, mode |-> p[4]],
    objs |-> [i \in 1..p[1] |-> [clen |-> 1 + (i % 7), oti |-> Oti(0, 4, 2, 0, i % 2 = 0)]],
    drain_cap |-> 30000,
    ops |-> [i \in 1..p[1] |-> <<"add", i>>] \o << <<"publish">>, <<"drain">> >> ]

SessParams == CASE Family = "many" -> ManyP [] Family = "exp2" -> Exp2P [] Family = "medium" -> MedP [] Family = "wide" -> WideP [] Family = "small" -> SmallP [] Family = "mem" -> MemP [] Family = "clean" -> CleanP [] Family = "car" -> CarP [] Family = "exp" -> ExpP
SessBuild(p) == CASE Family = "many" -> ManyB(p) [] Family = "exp2" -> Exp2B(p) [] Family = "medium" -> MedB(p) [] Family = "wide" -> WideB(p) [] Family = "small" -> SmallB(p) [] Family = "mem" -> MemB(p) [] Family = "clean" -> CleanB(p) [] Family = "car" -> CarB(p) [] Family = "exp" -> ExpB(p)

-----------------------------------------------------------------------------
(* extreme but well-formed packets, built with the wire-format specification (family c04x):                   *)
(* every packet is a syntactically valid ALC packet with an EXT_FTI whose values sit on the limits of the     *)
(* field widths and of the FEC schemes (RFC 5053 K <= 8192, RFC 6330 K' <= 56403, RFC 5510 n <= 255, ...)     *)
W == INSTANCE Wire
XSchemes == <<0, 1, 5, 6, 129>>
XB == <<1, 2, 255, 256, 8192, 8193, 56403, 56404, 65535, 2147483647>>   \* the last one for No-Code only (32-bit field)
XE == <<1, 4, 64>>
XZNA == << <<1, 1, 1>>, <<0, 1, 1>>, <<1, 0, 1>>, <<1, 1, 0>>, <<255, 1, 4>>, <<1, 255, 4>>, <<2, 2, 2>> >>
\* transfer length classes: one full block, one byte more, one byte, empty, 2^32-1, 2^40-1, 2^48-1
XL(B, E) == << W!MulSmall(W!FromNat(B, 4), E), W!Add(W!MulSmall(W!FromNat(B, 4), E), <<1>>), <<1>>, <<0>>,
               <<255, 255, 255, 255>>, <<255, 255, 255, 255, 255>>, <<255, 255, 255, 255, 255, 255>> >>
\* (sbn, esi) classes relative to B
XPid(B) == << <<0, 0>>, <<0, B - 1>>, <<0, B>>, <<0, 65535>>, <<1, 0>>, <<255, 0>>, <<65535, 1>> >>
XFti(sc, L, E, B, z, mx) ==
  CASE sc = 0   -> W!FtiNoCode(L, E, W!FromNat(B, 4))
    [] sc = 129 -> W!FtiSmallBlock(L, 0, E, B, IF mx = 0 THEN B ELSE IF mx = 1 THEN B - 1 ELSE 65535)
    [] sc = 5   -> W!FtiRS28(L, E, B % 256, IF mx = 0 THEN B % 256 ELSE IF mx = 1 THEN (B - 1) % 256 ELSE 255)
    [] sc = 6   -> W!FtiRaptorQ(L, E, z[1], z[2], z[3])
    [] sc = 1   -> W!FtiRaptor(L, E, z[1], z[2], z[3])
XPacket(sc, toi, L, E, B, z, mx, pid) ==
  LET sbn == IF sc = 6 THEN pid[1] % 256 ELSE pid[1]
      esi == IF sc = 5 THEN pid[2] % 256 ELSE pid[2]
      f == [c |-> 0, psi |-> 0, s |-> 1, o |-> 1, h |-> 0, a |-> 0, b |-> 0, cp |-> sc, cci |-> <<0, 0, 0, 0>>,
            tsi |-> W!FromNat(1, 4), toi |-> W!FromNat(toi, 4), exts |-> << XFti(sc, L, E, B, z, mx) >>,
            pid |-> W!EncPid(sc, IF sc = 129 THEN W!FromNat(sbn, 4) ELSE sbn, esi, B, 8), payload |-> [i \in 1..E |-> 90]]
  IN W!EncAlc(f)
\* all packets for one (scheme, B, E): distinct TOIs from 5000 on
XSet(sc, B, E) ==
  LET zs == IF sc \in {1, 6} THEN XZNA ELSE IF sc \in {5, 129} THEN << <<0>>, <<1>>, <<2>> >> ELSE << <<0>> >>
      Ls == XL(B, E)
      ps == XPid(B)
      nz == Len(zs) nl == Len(Ls) np == Len(ps)
  IN [n \in 1..(nz * nl * np) |->
        LET zi == ((n - 1) \div (nl * np)) + 1  li == (((n - 1) \div np) % nl) + 1  pi == ((n - 1) % np) + 1
        IN XPacket(sc, 5000 + n, Ls[li], E, B,
                   IF sc \in {1, 6} THEN zs[zi] ELSE <<1, 1, 1>>, IF sc \in {5, 129} THEN zs[zi][1] ELSE 0, ps[pi])]

-----------------------------------------------------------------------------
(* channel schedules over recorded sessions *)
Sess == IF Mode = "chan" THEN ndJsonDeserialize(IOEnv.SESS) ELSE <<>>
NP(s) == Len(Sess[s].pkts)

\* packet j of i..n pushed f[j] times (0, 1 or 2), in order; no recursion and no FlattenSeq (TLC overflows its stack on a few
\* hundred elements): every packet is listed twice and SelectSeq keeps the copies that are wanted
MaskOps(f, i, n) ==
  LET all == [q \in 1..(2 * (n - i + 1)) |-> <<i + (q - 1) \div 2, (q - 1) % 2>>]
      sel == SelectSeq(all, LAMBDA t : f[t[1]] > t[2])
  IN  [q \in 1..Len(sel) |-> <<"p", sel[q][1]>>]
PermOps(f, g, n) == FlattenSeq([j \in 1..n |-> IF g[f[j]] = 0 THEN <<>> ELSE << <<"p", f[j]>> >>])

\* object packets of the session (for corruption)
ObjPk(s) == {i \in 1..NP(s) : Sess[s].pkts[i].k = "obj"}

ChanSessions == {s \in 1..Len(Sess) : NP(s) >= 1 /\ (Family \in {"subsets", "dups", "perms"} => NP(s) <= MaxN)}

\* second-level parameter k, depending on the session s
ChanK(s) ==
  CASE Family = "subsets" -> [1..NP(s) -> {0, 1}]
    [] Family = "dups"    -> [1..NP(s) -> {0, 1, 2}]
    [] Family = "perms"   -> Permutations(1..NP(s)) \X [1..NP(s) -> {0, 1}]
    [] Family = "join"    -> 1..NP(s)
    [] Family = "corrupt" -> ObjPk(s) \X { <<"payflip", 0>>, <<"payflip", 1>>, <<"payflip", 2>>, <<"trunc", 1>>, <<"trunc", 2>>,
                                          <<"trunc", 3>>, <<"ext", 1>>, <<"pidff", 0>> } \X BOOLEAN
    \* ... x object cache limit (-1: default; 5 bytes: smaller than one source block, the object must end in error)
    [] Family = "writer"  -> {"store", "already", "abort"} \X {0, 1} \X {0, 1, 2, 3} \X (0..NP(s)) \X {"fwd", "objfirst"} \X {-1, 5}
    [] Family = "clean"   -> BOOLEAN \X BOOLEAN
    [] Family = "c04"     -> (0..NP(s)) \X ({<<"fuzzhdr", i>> : i \in 1..NP(s)} \cup {<<"truncall", i>> : i \in 1..NP(s)} \cup {<<"cpswap", i>> : i \in 1..NP(s)} \cup {<<"xmlfdt", v>> : v \in 0..29}
                                           \cup {<<"mutseq", x>> : x \in 1..6} \cup {<<"garbage", 1>>})
    \* which packets of the FIRST emission of the first instance arrive (only its first packet / all / none) x later
    \* instances lost x receiver clock skew
    [] Family = "expiry2" -> {"first", "all", "none"} \X BOOLEAN \X {-86400, 0, 7}
    \* pseudo-random loss / duplication: seed x loss rate (percent) x duplication rate (percent)
    [] Family = "rloss"   -> (1..12) \X {3, 10, 25, 45} \X {0, 15}
    \* the boundary of C02: exactly the symbols the property asks for (all source symbols and no repair symbol; the last k
    \* symbols of every block; everything but the first symbol of every block), the FDT complete
    [] Family = "boundary" -> {"srconly", "lastk", "notfirst"}
    [] Family = "c04x"    -> (1..Len(XSchemes)) \X (1..Len(XB)) \X (1..Len(XE))
    [] Family = "mem"     -> ({"nofdt", "missing", "fdtfirst", "all"} \X {1, 3, 10} \X {100, 400, 2000} \X {0, 1, 2} \X {0, -1} \X {0, -1})
                             \cup ({"refresh"} \X {1} \X {400, 2000} \X {0, 2} \X {80} \X {-1})
    [] Family = "expiry"  -> {-946080000, -86400, -5, 0, 5, 86400, 946080000} \X {0, 1, 2, 3} \X BOOLEAN \X BOOLEAN \X BOOLEAN

ChanBuild(s, k) ==
  LET n == NP(s) sid == Sess[s].sid IN
  CASE Family = "subsets" -> [sid |-> sid, fam |-> "subsets", sched |-> MaskOps(k, 1, n)]
    [] Family = "dups"    -> [sid |-> sid, fam |-> "dups", sched |-> MaskOps(k, 1, n)]
    [] Family = "perms"   -> [sid |-> sid, fam |-> "perms", sched |-> PermOps(k[1], k[2], n)]
    [] Family = "join"    -> [sid |-> sid, fam |-> "join", join |-> k, sched |-> << <<"seq", k, n>> >>]
    [] Family = "corrupt" -> [sid |-> sid, fam |-> "corrupt", w |-> [md5 |-> k[3]],
                              sched |-> (IF k[1] > 1 THEN << <<"seq", 1, k[1] - 1>> >> ELSE <<>>)
                                        \o << <<"pm", k[1], k[2]>> >>
                                        \o (IF k[1] < n THEN << <<"seq", k[1] + 1, n>> >> ELSE <<>>)]
    [] Family = "writer"  -> [sid |-> sid, fam |-> "writer", rcfg |-> [max_cache |-> k[6]],
                              w |-> [ans |-> <<k[1]>>, open_fail |-> IF k[2] = 1 THEN <<1>> ELSE <<>>,
                                     write_fail |-> IF k[3] > 0 THEN << <<1, k[3]>> >> ELSE <<>>],
                              sched |-> (IF k[5] = "fwd" THEN (IF k[4] > 0 THEN << <<"seq", 1, k[4]>> >> ELSE <<>>)
                                         ELSE \* object packets first, the FDT afterwards
                                              (<< <<"seq", 2, n>>, <<"p", 1>> >>))
                                        \o (IF k[5] = "fwd" /\ k[4] < n /\ k[4] % 2 = 0 THEN << <<"d">> >> ELSE <<>>)]
    [] Family = "clean"   -> [sid |-> sid, fam |-> "clean", rcfg |-> [once |-> k[1]], w |-> [md5 |-> k[2]], sched |-> << <<"seq", 1, n>> >>]
    [] Family = "c04"     -> [sid |-> sid, fam |-> "c04", prefix |-> k[1], adv |-> k[2]]
    [] Family = "expiry2" ->
         LET fdtIdx == {i \in 1..n : Sess[s].pkts[i].k = "fdt"}
             first == Sess[s].pkts[CHOOSE i \in fdtIdx : \A j \in fdtIdx : i <= j]
             keep(i) == LET q == Sess[s].pkts[i] IN
                        IF q.k # "fdt" THEN TRUE
                        ELSE IF q.id # first.id THEN ~k[2]
                        ELSE IF q.t > first.t THEN TRUE                    \* a repetition of the first instance
                        ELSE (k[1] = "all" \/ (k[1] = "first" /\ q.sbn = 0 /\ q.esi = 0))
         IN [sid |-> sid, fam |-> "expiry2", rcfg |-> [expiry |-> TRUE], skew |-> k[3],
             sched |-> << <<"skew", k[3]>> >> \o FlattenSeq([i \in 1..n |-> IF keep(i) THEN << <<"p", i>> >> ELSE <<>>])]
    [] Family = "boundary" ->
         LET keep(i) == LET q == Sess[s].pkts[i] IN
                        IF q.k # "obj" THEN TRUE
                        ELSE LET ob == Sess[s].objs[q.o]
                                 kb == BlockSyms(ob.L, ob.E, ob.B, q.sbn) IN
                             CASE k = "srconly"  -> q.esi < kb
                               [] k = "lastk"    -> q.esi >= ob.par
                               [] k = "notfirst" -> q.esi > 0
         IN [sid |-> sid, fam |-> "subsets", boundary |-> k, sched |-> MaskOps([i \in 1..n |-> IF keep(i) THEN 1 ELSE 0], 1, n)]
    [] Family = "rloss"   ->
         \* deterministic hash of (seed, packet index) in 0..99; the FDT packets are lost like any other
         LET H(a, i) == (((a * 7919 + i * 104729 + i * i * 31 + a * i * 977) % 10007) * 100) \div 10007
             mult(i) == IF H(k[1], i) < k[2] THEN 0 ELSE IF H(k[1] + 50, i) < k[3] THEN 2 ELSE 1
         IN [sid |-> sid, fam |-> "dups", loss |-> k[2], dup |-> k[3], seed |-> k[1], sched |-> MaskOps([i \in 1..n |-> mult(i)], 1, n)]
    [] Family = "c04x"    -> LET B == IF XSchemes[k[1]] # 0 /\ XB[k[2]] > 65535 THEN 65535 ELSE XB[k[2]] IN
                             [sid |-> sid, fam |-> "c04x", prefix |-> 0, what |-> <<XSchemes[k[1]], B, XE[k[3]]>>,
                              adv |-> <<"rawset", XSet(XSchemes[k[1]], B, XE[k[3]])>>]
    [] Family = "mem"     ->
         LET keep(i) == LET q == Sess[s].pkts[i] IN
                        CASE k[1] = "nofdt"    -> q.k = "obj"
                          [] k[1] = "missing"  -> q.k = "fdt" \/ (q.k = "obj" /\ q.esi # 0)
                          [] k[1] = "fdtfirst" -> (q.k = "fdt" /\ q.esi = 0 /\ q.sbn = 0) \/ q.k = "obj"
                          [] OTHER -> TRUE
             once == FlattenSeq([i \in 1..n |-> IF keep(i) THEN << <<"p", i>> >> ELSE <<>>])
             RECURSIVE Rep(_)
             Rep(r) == IF r = 0 THEN <<>> ELSE once \o Rep(r - 1)
             \* "refresh": objects stalled on a missing symbol, then - half an object time-out later - a new complete FDT
             \* instance, then - another half later - the cleanup: the objects have been silent for more than the time-out
             firstFdt == Sess[s].pkts[CHOOSE i \in 1..n : Sess[s].pkts[i].k = "fdt"].id
             lastFdt  == Sess[s].pkts[CHOOSE i \in 1..n : Sess[s].pkts[i].k = "fdt" /\ \A j \in 1..n : Sess[s].pkts[j].k = "fdt" => j <= i].id
             fdtPk(id) == FlattenSeq([i \in 1..n |-> IF Sess[s].pkts[i].k = "fdt" /\ Sess[s].pkts[i].id = id THEN << <<"p", i>> >> ELSE <<>>])
             stalled == FlattenSeq([i \in 1..n |-> IF Sess[s].pkts[i].k = "obj" /\ Sess[s].pkts[i].esi # 0 THEN << <<"p", i>> >> ELSE <<>>])
         IN [sid |-> sid, fam |-> "mem", pattern |-> k[1],
             rcfg |-> [max_cache |-> k[3], max_err |-> k[4], obj_to |-> k[5], sess_to |-> k[6], once |-> FALSE],
             sched |-> IF k[1] = "refresh"
                       THEN fdtPk(firstFdt) \o stalled \o << <<"sleep", 50>> >> \o fdtPk(lastFdt) \o << <<"sleep", 50>>, <<"c">> >>
                       ELSE Rep(k[2]) \o << <<"sleep", 5>>, <<"c">> >>]
    [] Family = "expiry"  ->
         \* receiver clock skew k[1]; transit delay class k[2] relative to the FDT duration D: 0, D-3, D+3, 2D;
         \* k[3] expiry check; k[4] object packets before the FDT; k[5] cleanup in between
         LET D == Sess[s].cfg.fdt_dur
             delay == IF k[2] = 0 THEN 0 ELSE IF k[2] = 1 THEN D - 3 ELSE IF k[2] = 2 THEN D + 3 ELSE 2 * D
         IN [sid |-> sid, fam |-> "expiry", rcfg |-> [expiry |-> k[3]], skew |-> k[1], delay |-> delay,
             \* the first part arrives without transit delay, the second part `delay` seconds late: with the FDT
             \* first, the instance is received while valid and the object arrives before / after its expiry;
             \* with the object first, the instance itself arrives late
             sched |-> << <<"skew", k[1]>>, <<"delay", 0>> >>
                       \o (IF k[4] THEN << <<"seq", 2, n>> >> ELSE << <<"p", 1>> >>)
                       \o << <<"delay", delay>> >>
                       \o (IF k[5] THEN << <<"c">> >> ELSE <<>>)
                       \o (IF k[4] THEN << <<"p", 1>> >> ELSE << <<"seq", 2, n>> >>)]

-----------------------------------------------------------------------------
VARIABLES a, k
Init == IF Mode = "sess" THEN a \in SessParams /\ k = 0 /\ (Family = "small" => (a[10] => a[4] = 1)) /\ (Family = "car" => (a[10] = 1 => a[7] = 2))    \* (no duplicate shapes)
        ELSE a \in ChanSessions /\ k \in ChanK(a)
Next == UNCHANGED <<a, k>>
Spec == Init /\ [][Next]_<<a, k>>
Emit == PrintT(<<"REPLAY", ToJson(IF Mode = "sess" THEN SessBuild(a) ELSE ChanBuild(a, k))>>)
=============================================================================
