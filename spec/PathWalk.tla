------------------------------ MODULE PathWalk ------------------------------
(***************************************************************************)
(* C05: the filesystem object writer never touches anything outside its   *)
(* destination directory.                                                  *)
(*                                                                         *)
(* A Content-Location is  prefix ++ seg_1 "/" seg_2 "/" ... seg_n  from    *)
(* the grammar of the property.  Mode "gen" enumerates the grammar         *)
(* completely to the depth bound (cartesian product, lazily) and prints    *)
(* each location with its abstract classification; mode "mon" validates    *)
(* the recorded file-system effects of delivering an object with that      *)
(* location through a real FLUTE session to the real ObjectWriterFS.       *)
(*                                                                         *)
(* Walk semantics (what "inside the destination directory" means): the     *)
(* location's path is walked component by component from the destination   *)
(* directory with a depth counter; "." keeps the depth, a name increases   *)
(* it, ".." decreases it; the walk leaves the directory as soon as the     *)
(* depth would become negative or a component restarts at the root.  The   *)
(* monitor does not trust any such computation for its verdict: it looks   *)
(* at the paths that really changed on disk.                               *)
(***************************************************************************)
EXTENDS Naturals, Sequences, FiniteSets, TLC, Json, IOUtils, SequencesExt, VCommon
CONSTANTS Mode, MaxSegs

PfxSeq == << "file:///", "file://host/", "http://h/", "x:", "x:/", "x://h/", "", "/", "//" >>
\* segment kinds; @ROOT@ is replaced by the harness with the absolute path of a directory that is
\* outside the destination directory (without its leading slash)
Segs == << "n1", ".", "..", "", "%2e%2e", "..%2f", "a\\..\\b", "@ROOT@/outside/victim" >>

RECURSIVE Join(_, _)
Join(f, i) == IF i > Len(f) THEN "" ELSE Segs[f[i]] \o (IF i < Len(f) THEN "/" ELSE "") \o Join(f, i + 1)
Loc(p, f) == PfxSeq[p] \o Join(f, 1)

\* naive walk of the segments under the destination directory (depth relative to it); -1 = escaped
RECURSIVE WalkDepth(_, _, _)
WalkDepth(f, i, d) ==
  IF d < 0 THEN -1 ELSE IF i > Len(f) THEN d
  ELSE LET k == f[i] IN
       IF k \in {2, 4} THEN WalkDepth(f, i + 1, d)                 \* ".", ""
       ELSE IF k \in {3, 5} THEN WalkDepth(f, i + 1, d - 1)        \* "..", "%2e%2e" (decoded by some parsers)
       ELSE IF k = 8 THEN WalkDepth(f, i + 1, d + 3)               \* several names
       ELSE WalkDepth(f, i + 1, d + 1)
NaiveEscape(p, f) == WalkDepth(f, 1, 0) < 0 \/ (p = 9 /\ Len(f) > 0)    \* "//x" is an absolute path after one "/" is stripped
\* plain locations: the file must end up at dest/seg_1/../seg_n
Plain(p, f) == p \in {1, 3, 7, 8} /\ Len(f) >= 1 /\ \A i \in 1..Len(f) : f[i] = 1

-----------------------------------------------------------------------------
VARIABLES p, n, f, o, l
vars == <<p, n, f, o, l>>
Rec == IF Mode = "mon" THEN ndJsonDeserialize(IOEnv.TRACE) ELSE <<>>

GenInit == /\ p \in 1..Len(PfxSeq) /\ n \in 0..MaxSegs /\ f \in [1..n -> 1..Len(Segs)]
           /\ o \in {"complete", "error", "interrupted"} /\ l = 0
Emit == Mode = "gen" =>
          PrintT(<<"REPLAY", ToJson([loc |-> Loc(p, f), pfx |-> p, segs |-> f, outcome |-> o,
                                     naive_escape |-> NaiveEscape(p, f), plain |-> Plain(p, f)])>>)

IsPrefixOf(a, b) == Len(a) <= Len(b) /\ \A i \in 1..Len(a) : a[i] = b[i]
MonNext ==
  /\ l <= Len(Rec)
  /\ LET e == Rec[l] IN
     /\ Check(e.panic = "", "C05", "receiver-panicked", e.beh, l, e.panic)
     /\ Check(\A i \in 1..Len(e.touched) : IsPrefixOf(e.dest, e.touched[i]) /\ Len(e.touched[i]) > Len(e.dest),
              "C05", "writer-touched-a-path-outside-its-destination-directory", e.beh, l,
              <<e.pfx, e.segs, SelectSeq(e.touched, LAMBDA t : ~IsPrefixOf(e.dest, t) \/ Len(t) <= Len(e.dest))>>)
     \* C01, filesystem clause: a plain location delivers the exact bytes into dest/<path>
     /\ Check(IF e.plain /\ e.outcome = "complete" /\ e.panic = ""
              THEN \E i \in 1..Len(e.newfiles) :
                      /\ e.newfiles[i].p = e.dest \o [j \in 1..Len(e.segs) |-> "n1"]
                      /\ e.newfiles[i].dg = e.dg
              ELSE TRUE, "C01", "file-not-written-under-the-destination-directory", e.beh, l, <<e.pfx, e.segs, e.newfiles>>)
     \* an object that is not completed leaves no file behind
     /\ Check(e.outcome = "complete" \/ Len(e.newfiles) = 0, "C05", "failed-object-left-a-file", e.beh, l, <<e.outcome, e.newfiles>>)
  /\ l' = l + 1 /\ UNCHANGED <<p, n, f, o>>
Init == IF Mode = "gen" THEN GenInit ELSE p = 0 /\ n = 0 /\ f = <<>> /\ o = "" /\ l = 1
Next == IF Mode = "gen" THEN UNCHANGED vars ELSE MonNext
Spec == Init /\ [][Next]_vars
AllConsumed == Mode = "gen" \/ (IF TLCGet("stats").diameter = Len(Rec) + 1 THEN TRUE
               ELSE PrintT(<<"UNCONSUMED", TLCGet("stats").diameter, Len(Rec)>>) /\ FALSE)
=============================================================================
