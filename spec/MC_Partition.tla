---------------------------- MODULE MC_Partition ----------------------------
(* Exhaustive check of the C07 theorems of Partition.tla on a grid.  The   *)
(* state graph is a tree root -> B -> (B, E) so that TLC's workers share   *)
(* the leaves; the invariant of a leaf quantifies over every L.            *)
EXTENDS Partition, TLC
CONSTANTS BMax, EMax, LMax
VARIABLE node
Init == node = <<0, 0>>
Next == \/ node = <<0, 0>> /\ \E b \in 1..BMax : node' = <<b, 0>>
        \/ node[1] > 0 /\ node[2] = 0 /\ \E e \in 1..EMax : node' = <<node[1], e>>
Spec == Init /\ [][Next]_node
Leaf == node[1] > 0 /\ node[2] > 0
Theorems == Leaf => \A L \in 0..LMax : AllTheorems(L, node[2], node[1])
\* the RLE of block byte lengths agrees with the per-block definition
RECURSIVE Expand(_)
Expand(rle) == IF rle = <<>> THEN <<>>
               ELSE [i \in 1..rle[1][1] |-> rle[1][2]] \o Expand(Tail(rle))
RleOk == Leaf => \A L \in 0..LMax :
           LET B == node[1] E == node[2] P == Part(L, E, B) IN
           Expand(BlockBytesRle(L, E, B)) = [i \in 1..P.n |-> PBytes(P, i - 1)]
=============================================================================
