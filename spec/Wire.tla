-------------------------------- MODULE Wire --------------------------------
(***************************************************************************)
(* Independent specification of the ALC/LCT wire format used by FLUTE      *)
(* (C06): RFC 5651 LCT header and header extensions, RFC 5775 EXT_FTI,     *)
(* RFC 6726 EXT_FDT / EXT_CENC, RFC 5651 EXT_TIME, FEC Object Transmission *)
(* Information and FEC Payload IDs of RFC 5445 (FEC 0, 129), RFC 5510      *)
(* (FEC 2, 5), RFC 6330 (FEC 6) and - up to self-consistency only, see     *)
(* DESIGN D9 - RFC 5053 (FEC 1).                                           *)
(*                                                                         *)
(* Bytes are sequences of 0..255.  Wide fields (CCI up to 128 bit, TSI 48, *)
(* TOI 112, transfer length 48) are byte sequences compared modulo leading *)
(* zeros, so TLC's 32-bit integers never see them; NTP arithmetic is done  *)
(* on base-256 digit sequences.                                            *)
(*                                                                         *)
(*  0                   1                   2                   3          *)
(*  0 1 2 3 4 5 6 7 8 9 0 1 2 3 4 5 6 7 8 9 0 1 2 3 4 5 6 7 8 9 0 1        *)
(* +-+-+-+-+-+-+-+-+-+-+-+-+-+-+-+-+-+-+-+-+-+-+-+-+-+-+-+-+-+-+-+-+       *)
(* |   V   | C |PSI|S| O |H|Res|A|B|   HDR_LEN     | Codepoint (CP)|       *)
(* | CCI (32*(C+1) bits) | TSI (32*S+16*H bits) | TOI (32*O+16*H bits) |   *)
(* | header extensions ... | FEC payload ID | encoding symbol(s)       |   *)
(***************************************************************************)
EXTENDS Integers, Sequences, SequencesExt, FiniteSets

Byte == 0..255
Zeros(n) == [i \in 1..n |-> 0]

\* --- numbers as big-endian base-256 digit sequences ------------------------
RECURSIVE Strip(_)
Strip(b) == IF b = <<>> THEN <<>> ELSE IF b[1] = 0 THEN Strip(Tail(b)) ELSE b
SameValue(a, b) == Strip(a) = Strip(b)
\* value of a short byte sequence (must be < 2^31)
RECURSIVE ToNat(_)
ToNat(b) == IF b = <<>> THEN 0 ELSE ToNat(SubSeq(b, 1, Len(b) - 1)) * 256 + b[Len(b)]
\* n (< 2^31) as exactly k bytes (low k bytes)
RECURSIVE FromNat(_, _)
FromNat(n, k) == IF k = 0 THEN <<>> ELSE Append(FromNat(n \div 256, k - 1), n % 256)
\* pad / cut on the left to exactly k bytes (keeps the low-order bytes)
Fit(b, k) == IF Len(b) >= k THEN SubSeq(b, Len(b) - k + 1, Len(b)) ELSE Zeros(k - Len(b)) \o b
FitsIn(b, k) == Len(Strip(b)) <= k
\* a + b on digit sequences (result one digit longer than the longer operand)
RECURSIVE AddRev(_, _, _)
AddRev(a, b, c) == \* a, b little-endian here
  IF a = <<>> /\ b = <<>> THEN (IF c = 0 THEN <<>> ELSE <<c>>)
  ELSE LET x == (IF a = <<>> THEN 0 ELSE a[1]) + (IF b = <<>> THEN 0 ELSE b[1]) + c IN
       <<x % 256>> \o AddRev(IF a = <<>> THEN <<>> ELSE Tail(a), IF b = <<>> THEN <<>> ELSE Tail(b), x \div 256)
Add(a, b) == Reverse(AddRev(Reverse(a), Reverse(b), 0))
\* a * m for a small m (< 2^22)
RECURSIVE MulRev(_, _, _)
MulRev(a, m, c) == IF a = <<>> THEN (IF c = 0 THEN <<>> ELSE MulRev(<<0>>, m, c))
                   ELSE LET x == a[1] * m + c IN <<x % 256>> \o MulRev(Tail(a), m, x \div 256)
MulSmall(a, m) == Reverse(MulRev(Reverse(a), m, 0))

\* --- NTP (RFC 5905 64-bit timestamp: seconds since 1900, 32-bit fraction) ------
NtpUnixOffset == <<131, 170, 126, 128>>          \* 2208988800 = 0x83AA7E80
\* seconds field for a UNIX time given as 4 bytes (era 0: the sum fits 32 bits)
NtpSeconds(unixSecs) == Fit(Add(unixSecs, NtpUnixOffset), 4)
NtpSecondsFits(unixSecs) == FitsIn(Add(unixSecs, NtpUnixOffset), 4)
\* microseconds denoted by a 32-bit fraction, to the nearest microsecond: floor((f * 10^6 + 2^31) / 2^32)
FracToMicros(frac) == LET p == Add(MulSmall(frac, 1000000), <<128, 0, 0, 0>>) IN ToNat(Strip(SubSeq(p, 1, Len(p) - 4)))
\* a fraction encodes `us` iff it denotes it to the nearest microsecond
FracEncodes(frac, us) == FracToMicros(frac) = us

\* --- header extensions -----------------------------------------------------------
\* an extension is [het, body]: for HET < 128 the body follows HET and HEL, total length 4*HEL;
\* for HET >= 128 the body is the 3 bytes after HET
EncExt(x) == IF x.het >= 128 THEN <<x.het>> \o x.body
             ELSE <<x.het, (Len(x.body) + 2) \div 4>> \o x.body
ExtOk(x)  == IF x.het >= 128 THEN Len(x.body) = 3 ELSE (Len(x.body) + 2) % 4 = 0 /\ (Len(x.body) + 2) \div 4 \in 1..255
EncExts(xs) == FlattenSeq([i \in 1..Len(xs) |-> EncExt(xs[i])])

RECURSIVE DecExts(_)
\* sequence of [het, body]; <<[het |-> -1]>> marks a malformed extension area
DecExts(b) ==
  IF b = <<>> THEN <<>>
  ELSE IF Len(b) < 4 THEN <<[het |-> -1, body |-> <<>>]>>
  ELSE IF b[1] >= 128 THEN <<[het |-> b[1], body |-> SubSeq(b, 2, 4)]>> \o DecExts(SubSeq(b, 5, Len(b)))
  ELSE LET n == 4 * b[2] IN
       IF n = 0 \/ n > Len(b) THEN <<[het |-> -1, body |-> <<>>]>>
       ELSE <<[het |-> b[1], body |-> SubSeq(b, 3, n)]>> \o DecExts(SubSeq(b, n + 1, Len(b)))

ExtFdt(ver, id)   == [het |-> 192, body |-> <<ver * 16 + (id \div 65536), (id \div 256) % 256, id % 256>>]   \* V(4) | instance id (20)
ExtCenc(c)        == [het |-> 193, body |-> <<c, 0, 0>>]
\* EXT_TIME with SCT-high and SCT-low: use bits 0xC0 0x00, then the two 32-bit words
ExtTime(hi, lo)   == [het |-> 2, body |-> <<192, 0>> \o hi \o lo]
\* EXT_FTI bodies (after HET = 64 and HEL); L is the transfer length as a byte sequence
FtiNoCode(L, E, B)          == [het |-> 64, body |-> Fit(L, 6) \o <<0, 0>> \o FromNat(E, 2) \o B]                 \* B: 4 bytes
FtiSmallBlock(L, inst, E, B, maxn) == [het |-> 64, body |-> Fit(L, 6) \o FromNat(inst, 2) \o FromNat(E, 2) \o FromNat(B, 2) \o FromNat(maxn, 2)]
FtiRS28(L, E, B, maxn)      == [het |-> 64, body |-> Fit(L, 6) \o FromNat(E, 2) \o <<B, maxn>>]
FtiRS2m(L, m, G, E, B, maxn) == [het |-> 64, body |-> Fit(L, 6) \o <<m, G>> \o FromNat(E, 2) \o FromNat(B, 2) \o FromNat(maxn, 2)]
FtiRaptorQ(F, T, Z, N, Al)  == [het |-> 64, body |-> Fit(F, 5) \o <<0>> \o FromNat(T, 2) \o <<Z>> \o FromNat(N, 2) \o <<Al>> \o <<0, 0>>]
FtiRaptor(F, T, Z, N, Al)   == [het |-> 64, body |-> Fit(F, 5) \o <<0>> \o FromNat(T, 2) \o FromNat(Z, 2) \o <<N, Al>> \o <<0, 0>>]

\* --- FEC payload IDs --------------------------------------------------------------
PidLen(cp) == IF cp = 129 THEN 8 ELSE 4
\* sbn, esi: integers < 2^31, or byte sequences for the 32-bit SBN of FEC 129
EncPid(cp, sbn, esi, sbl, m) ==
  CASE cp \in {0, 1} -> FromNat(sbn, 2) \o FromNat(esi, 2)
    [] cp = 5        -> FromNat(sbn, 3) \o <<esi>>
    [] cp = 6        -> <<sbn>> \o FromNat(esi, 3)
    [] cp = 129      -> sbn \o FromNat(sbl, 2) \o FromNat(esi, 2)                                \* sbn: 4 bytes
    [] cp = 2        -> FromNat(sbn * (2 ^ m) + esi, 4)
DecPid(cp, b, m) ==
  CASE cp \in {0, 1} -> [sbn |-> ToNat(SubSeq(b, 1, 2)), esi |-> ToNat(SubSeq(b, 3, 4)), sbl |-> -1]
    [] cp = 5        -> [sbn |-> ToNat(SubSeq(b, 1, 3)), esi |-> b[4], sbl |-> -1]
    [] cp = 6        -> [sbn |-> b[1], esi |-> ToNat(SubSeq(b, 2, 4)), sbl |-> -1]
    [] cp = 129      -> [sbn |-> SubSeq(b, 1, 4), sbl |-> ToNat(SubSeq(b, 5, 6)), esi |-> ToNat(SubSeq(b, 7, 8))]
    [] cp = 2        -> \* SBN (32 - m bits) | ESI (m bits); computed bytewise so that no 32-bit value enters TLC (m <= 8)
                        [sbn |-> ToNat(SubSeq(b, 1, 3)) * (2 ^ (8 - m)) + b[4] \div (2 ^ m), esi |-> b[4] % (2 ^ m), sbl |-> -1]

\* --- the LCT header ----------------------------------------------------------------
\* f: [c, psi, s, o, h, a, b, cp, cci, tsi, toi, exts, pid, payload]; cci/tsi/toi are byte sequences
\* of exactly 4(c+1) / 4s+2h / 4o+2h bytes
WidthsOk(f) == Len(f.cci) = 4 * (f.c + 1) /\ Len(f.tsi) = 4 * f.s + 2 * f.h /\ Len(f.toi) = 4 * f.o + 2 * f.h
HdrWords(f) == 1 + (f.c + 1) + (Len(f.tsi) + Len(f.toi)) \div 4 + Len(EncExts(f.exts)) \div 4
EncAlc(f) ==
  << 16 + f.c * 4 + f.psi, f.s * 128 + f.o * 32 + f.h * 16 + f.a * 2 + f.b, HdrWords(f), f.cp >>
  \o f.cci \o f.tsi \o f.toi \o EncExts(f.exts) \o f.pid \o f.payload

\* decoding; [ok |-> FALSE] when the datagram is not a well-formed ALC packet
DecAlc(b) ==
  IF Len(b) < 4 THEN [ok |-> FALSE] ELSE
  LET v == b[1] \div 16  c == (b[1] \div 4) % 4  psi == b[1] % 4
      s == b[2] \div 128 o == (b[2] \div 32) % 4 h == (b[2] \div 16) % 2
      a == (b[2] \div 2) % 2  bb == b[2] % 2
      hl == 4 * b[3]  cp == b[4]
      lc == 4 * (c + 1)  lt == 4 * s + 2 * h  lo == 4 * o + 2 * h
      fixed == 4 + lc + lt + lo
      pl == PidLen(cp)
  IN  IF v # 1 \/ hl < fixed \/ hl > Len(b) \/ cp \notin {0, 1, 2, 5, 6, 129} \/ hl + pl > Len(b) THEN [ok |-> FALSE]
      ELSE LET xs == DecExts(SubSeq(b, fixed + 1, hl)) IN
           IF \E i \in 1..Len(xs) : xs[i].het = -1 THEN [ok |-> FALSE]
           ELSE [ok |-> TRUE, c |-> c, psi |-> psi, s |-> s, o |-> o, h |-> h, a |-> a, b |-> bb, cp |-> cp,
                 cci |-> SubSeq(b, 5, 4 + lc), tsi |-> SubSeq(b, 5 + lc, 4 + lc + lt), toi |-> SubSeq(b, 5 + lc + lt, fixed),
                 exts |-> xs, pid |-> SubSeq(b, hl + 1, hl + pl), payload |-> SubSeq(b, hl + pl + 1, Len(b))]

FirstExt(d, het) == LET I == {i \in 1..Len(d.exts) : d.exts[i].het = het} IN
                    IF I = {} THEN [het |-> -1, body |-> <<>>] ELSE d.exts[CHOOSE i \in I : \A j \in I : i <= j]

\* decoded EXT_FTI of a packet with codepoint cp: [present, L, E, B, maxn, inst, m, g, Z, N, Al]
DecFti(d) ==
  LET x == FirstExt(d, 64) y == x.body IN
  IF x.het = -1 THEN [present |-> FALSE]
  ELSE CASE d.cp = 0   /\ Len(y) = 14 -> [present |-> TRUE, L |-> SubSeq(y, 1, 6), E |-> ToNat(SubSeq(y, 9, 10)), B |-> SubSeq(y, 11, 14), maxn |-> -1, inst |-> -1, m |-> -1, g |-> -1, Z |-> -1, N |-> -1, Al |-> -1]
         [] d.cp = 129 /\ Len(y) = 14 -> [present |-> TRUE, L |-> SubSeq(y, 1, 6), inst |-> ToNat(SubSeq(y, 7, 8)), E |-> ToNat(SubSeq(y, 9, 10)), B |-> SubSeq(y, 11, 12), maxn |-> ToNat(SubSeq(y, 13, 14)), m |-> -1, g |-> -1, Z |-> -1, N |-> -1, Al |-> -1]
         [] d.cp = 5   /\ Len(y) = 10 -> [present |-> TRUE, L |-> SubSeq(y, 1, 6), E |-> ToNat(SubSeq(y, 7, 8)), B |-> <<y[9]>>, maxn |-> y[10], inst |-> -1, m |-> -1, g |-> -1, Z |-> -1, N |-> -1, Al |-> -1]
         [] d.cp = 2   /\ Len(y) = 14 -> [present |-> TRUE, L |-> SubSeq(y, 1, 6), m |-> y[7], g |-> y[8], E |-> ToNat(SubSeq(y, 9, 10)), B |-> SubSeq(y, 11, 12), maxn |-> ToNat(SubSeq(y, 13, 14)), inst |-> -1, Z |-> -1, N |-> -1, Al |-> -1]
         [] d.cp = 6   /\ Len(y) = 14 -> [present |-> TRUE, L |-> SubSeq(y, 1, 5), E |-> ToNat(SubSeq(y, 7, 8)), Z |-> y[9], N |-> ToNat(SubSeq(y, 10, 11)), Al |-> y[12], B |-> <<>>, maxn |-> -1, inst |-> -1, m |-> -1, g |-> -1]
         [] d.cp = 1   /\ Len(y) = 14 -> [present |-> TRUE, L |-> SubSeq(y, 1, 5), E |-> ToNat(SubSeq(y, 7, 8)), Z |-> ToNat(SubSeq(y, 9, 10)), N |-> y[11], Al |-> y[12], B |-> <<>>, maxn |-> -1, inst |-> -1, m |-> -1, g |-> -1]
         [] OTHER -> [present |-> TRUE, bad |-> TRUE]
=============================================================================
