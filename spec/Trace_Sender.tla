----------------------------- MODULE Trace_Sender -----------------------------
(* Conformance of recorded sender traces with the mechanism specification     *)
(* Sender.tla (binding evidence, DESIGN.md 6.2).  The specification is         *)
(* deterministic: every logged call is applied to the model state with its     *)
(* logged arguments (and the logged XML length of each FDT instance) and the   *)
(* predicted packet, subscriber events and projection of the containers are    *)
(* compared with what the real Sender did.  The first difference of a          *)
(* behaviour is printed as "DRIFT" (with the event number) and the behaviour   *)
(* is abandoned; a behaviour that matches to its end prints "MATCH".  A drift  *)
(* is a diagnostic, never an alarm by itself.                                  *)
EXTENDS Sender, Json, IOUtils, VCommon
Rec == ndJsonDeserialize(IOEnv.TRACE)
VARIABLES l, s, beh, ok, fdtL
vars == <<l, s, beh, ok, fdtL>>
Init == l = 1 /\ s = [none |-> TRUE] /\ beh = -1 /\ ok = FALSE /\ fdtL = <<>>

SeqToSet(q) == {q[i] : i \in 1..Len(q)}
Supported(e) == /\ ~Has(e, "skip")
                /\ e.cfg.tick_us \in {1000, 1000000}
                /\ \A i \in 1..Len(e.objs) : e.objs[i].L >= 0 /\ e.objs[i].src = "buffer"
                \* pacing is computed in nanoseconds: only with millisecond ticks (32-bit integers)
                /\ \A i \in 1..Len(e.objs) : e.objs[i].target[1] \in {"dur", "time"} => e.cfg.tick_us = 1000
                \* the model has no block-encoder failures: Raptor blocks of 2 or 3 symbols, RS without parity
                /\ \A i \in 1..Len(e.objs) :
                     LET ob == e.objs[i] IN
                     /\ (ob.scheme = 1 => \A b \in 0..(N(ob.L, ob.E, ob.B) - 1) : BlockSyms(ob.L, ob.E, ob.B, b) \notin {2, 3})
Obj0(ob) == [L |-> ob.L, E |-> ob.E, B |-> ob.B, par |-> ob.par, q |-> ob.q, count |-> ob.count, car |-> ob.car, start |-> ob.start,
             target |-> ob.target, imm |-> ob.imm]
Cfg0(c) == [mode |-> c.mode, queues |-> c.queues, interleave |-> c.interleave, E |-> c.E, B |-> c.B, par |-> c.par,
            fdt_start |-> c.fdt_start, fdt_dur |-> c.fdt_dur, fdt_car |-> c.fdt_car, tick_us |-> c.tick_us, variant |-> "ok"]

PktMatches(out, p) ==
  /\ out.k = (IF p.k \in {"obj", "fdt", "none"} THEN p.k ELSE "bad")
  /\ (out.k = "obj" => out.o = p.o /\ out.sbn = p.sbn /\ out.esi = p.esi /\ out.B = p.B)
  /\ (out.k = "fdt" => out.id = p.id /\ out.sbn = p.sbn /\ out.esi = p.esi /\ out.B = p.B)
SubMatches(sub, es) == Len(sub) = Len(es) /\ \A i \in 1..Len(sub) : sub[i][1] = es[i][1] /\ sub[i][2] = es[i][2]
ProjMatches(ss, st) ==
  LET pr == Proj(ss) IN
  /\ pr.live = SeqToSet(st.live) /\ pr.n = st.n /\ pr.fq = st.fq /\ pr.fdtid = st.fdtid /\ pr.fdtq = st.fdtq
  /\ pr.fcur = st.fcur
  /\ \A i \in 1..Len(st.xf) : st.xf[i][1] \in DOMAIN pr.xf /\ pr.xf[st.xf[i][1]] = st.xf[i][2]
  /\ \A i \in 1..Len(st.slots) : LET q == st.slots[i][1] IN pr.slots[q] = st.slots[i][3] /\ pr.index[q] = st.slots[i][2]

Drift(e, what, pred) == PrintT(<<"DRIFT", ToJson([beh |-> beh, line |-> l, ev |-> e.ev, what |-> what, predicted |-> pred])>>)

Apply(e) ==
  CASE e.ev = "add"      -> IF e.res = "ok" THEN AddObject(s, e.o) ELSE s
    [] e.ev = "publish"  -> IF e.res = "ok" THEN Publish(s, e.t) ELSE s
    [] e.ev = "remove"   -> IF e.res = "true" THEN RemoveObject(s, e.o) ELSE s
    [] e.ev = "trigger"  -> IF e.res = "true" THEN Trigger(s, e.o, e.at) ELSE s
    [] e.ev = "complete" -> SetComplete(s)
    [] e.ev = "read"     -> IF e.res = "ok" THEN Read(s, e.t, fdtL) ELSE s
    [] OTHER -> s

Next ==
  /\ l <= Len(Rec)
  /\ LET e == Rec[l] IN
     IF e.ev = "reset" THEN
        /\ beh' = e.beh
        /\ IF Supported(e)
           THEN /\ ok' = TRUE /\ s' = InitState(Cfg0(e.cfg), [i \in 1..Len(e.objs) |-> Obj0(e.objs[i])])
                /\ fdtL' = [id \in {e.fdtlens[i][1] : i \in 1..Len(e.fdtlens)} |->
                              (CHOOSE x \in {e.fdtlens[i] : i \in 1..Len(e.fdtlens)} : x[1] = id)[2]]
           ELSE /\ ok' = FALSE /\ s' = [none |-> TRUE] /\ fdtL' = <<>> /\ PrintT(<<"UNSUPPORTED", e.beh>>)
     ELSE IF ~ok THEN UNCHANGED <<s, beh, ok, fdtL>>
     ELSE IF Has(e, "res") /\ e.res = "panic" THEN ok' = FALSE /\ UNCHANGED <<s, beh, fdtL>> /\ PrintT(<<"UNSUPPORTED", beh>>)
     ELSE IF e.ev \in {"end", "dead"} THEN
        /\ PrintT(<<"MATCH", beh>>) /\ ok' = FALSE /\ UNCHANGED <<s, beh, fdtL>>
     ELSE
        LET s1 == Apply(e)
            good == /\ (e.ev = "read" => PktMatches(s1.out, e.p) /\ SubMatches(s1.sub, e.sub))
                    /\ (e.ev = "add" => (e.res = "ok") = AddOk(s, e.o) \/ e.res = "err")
                    /\ (e.ev = "remove" => (e.res = "true") = (e.o \in s.files))
                    /\ (Has(e, "st") => ProjMatches(s1, e.st))
        IN  /\ s' = s1 /\ UNCHANGED <<beh, fdtL>>
            /\ IF good THEN ok' = TRUE
               ELSE /\ ok' = FALSE
                    /\ Drift(e, IF e.ev = "read" /\ ~PktMatches(s1.out, e.p) THEN "packet"
                                ELSE IF e.ev = "read" /\ ~SubMatches(s1.sub, e.sub) THEN "subscriber-events" ELSE "projection",
                             [out |-> s1.out, sub |-> s1.sub, proj |-> Proj(s1)])
  /\ l' = l + 1
Spec == Init /\ [][Next]_vars
AllConsumed == IF TLCGet("stats").diameter = Len(Rec) + 1 THEN TRUE
               ELSE PrintT(<<"UNCONSUMED", TLCGet("stats").diameter, Len(Rec)>>) /\ FALSE
=============================================================================
