------------------------------ MODULE ToiAlloc ------------------------------
(***************************************************************************)
(* Mechanism specification of the sender's TOI allocator                    *)
(* (sender/toiallocator.rs, used by Fdt::allocate_toi and add_object) and   *)
(* the C15 safety properties on it.                                        *)
(*                                                                         *)
(* TOI space 0..M-1 (M = 2^width; TLC uses a tiny M, the harness maps the  *)
(* histories to the real widths around the wrap point), 0 is the FDT.      *)
(*   next      the value the next allocation returns          (self.toi)   *)
(*   reserved  values handed out and not released     (self.toi_reserved)  *)
(*   handles   outstanding Toi handles (allocate_toi), in allocation order *)
(*   objs      TOIs attached to live objects (add_object)                   *)
(* Allocate: ret = next; reserved += ret; advance next, skipping 0 and     *)
(* reserved values.  Release (handle dropped, or object finished/removed   *)
(* and no session holds it any more): reserved -= value.                   *)
(***************************************************************************)
EXTENDS Naturals, Sequences, FiniteSets, TLC, Json
CONSTANTS M, Start, MaxLive, Depth, NObjs

Mask(v) == v % M
RECURSIVE Advance(_, _, _)
\* the loop of ToiAllocatorInternal::allocate; n bounds the recursion (M steps visit every value)
Advance(v, res, n) ==
  LET w0 == Mask(v + 1) w == IF w0 = 0 THEN 1 ELSE w0 IN
  IF n = 0 \/ w \notin res THEN w ELSE Advance(w, res, n - 1)

InitialNext == LET a == IF Start = 0 THEN 1 ELSE Start  b == Mask(a) IN IF b = 0 THEN 1 ELSE b

VARIABLES next, reserved, handles, objs, added, hist, last
vars == <<next, reserved, handles, objs, added, hist, last>>

Init == /\ next = InitialNext /\ reserved = {} /\ handles = <<>> /\ objs = <<>> /\ added = 0
        /\ hist = <<>> /\ last = 0

Live == Cardinality(reserved)
NH == Len(handles)

\* allocate_toi(): handle index (0-based, as the harness numbers them) = number of handles so far
Alloc == /\ Live < MaxLive /\ Len(hist) < Depth
         /\ last' = next
         /\ reserved' = reserved \cup {next}
         /\ next' = Advance(next, reserved \cup {next}, M)
         /\ handles' = Append(handles, next)
         /\ hist' = Append(hist, <<"alloc">>)
         /\ UNCHANGED <<objs, added>>

\* drop of handle h (0 = already dropped / used)
DropH(h) == /\ handles[h] # 0 /\ Len(hist) < Depth
            /\ reserved' = reserved \ {handles[h]}
            /\ handles' = [handles EXCEPT ![h] = 0]
            /\ hist' = Append(hist, <<"droptoi", h - 1>>)
            /\ last' = 0
            /\ UNCHANGED <<next, objs, added>>

\* add_object without TOI: implicit allocation
Add == /\ added < NObjs /\ Live < MaxLive /\ Len(hist) < Depth
       /\ last' = next
       /\ reserved' = reserved \cup {next}
       /\ next' = Advance(next, reserved \cup {next}, M)
       /\ objs' = Append(objs, next)
       /\ added' = added + 1
       /\ hist' = Append(hist, <<"add", added + 1>>)
       /\ UNCHANGED handles

\* add_object with a reserved handle: no allocation, the handle moves into the object
AddWith(h) == /\ added < NObjs /\ handles[h] # 0 /\ Len(hist) < Depth
              /\ objs' = Append(objs, handles[h])
              /\ handles' = [handles EXCEPT ![h] = 0]
              /\ added' = added + 1
              /\ hist' = Append(hist, <<"addtoi", added + 1, h - 1>>)
              /\ last' = 0
              /\ UNCHANGED <<next, reserved>>

\* every added object is published, transmitted to the end and released ("publish" + "drain")
Finish == /\ \E o \in 1..Len(objs) : objs[o] # 0
          /\ Len(hist) < Depth
          /\ reserved' = reserved \ {objs[x] : x \in 1..Len(objs)}
          /\ objs' = [x \in 1..Len(objs) |-> 0]
          /\ hist' = hist \o << <<"publish">>, <<"drain">> >>
          /\ last' = 0
          /\ UNCHANGED <<next, handles, added>>

Next == Alloc \/ Add \/ Finish \/ (\E h \in 1..NH : DropH(h) \/ AddWith(h))
Spec == Init /\ [][Next]_vars

-----------------------------------------------------------------------------
(* C15 on the mechanism *)
TypeOK == next \in 1..(M - 1) /\ reserved \subseteq 1..(M - 1)
\* what the next allocation will return is free and non-zero (so every allocation is unique while live)
NextFree == Live < M - 1 => next \notin reserved
\* the values held by handles and objects are exactly the reserved ones, pairwise distinct
Held == ({handles[h] : h \in 1..NH} \cup {objs[o] : o \in 1..Len(objs)}) \ {0}
Consistent == /\ (Held \ {0}) = reserved
              /\ \A a, b \in 1..NH : a # b /\ handles[a] # 0 => handles[a] # handles[b]
              /\ \A a, b \in 1..Len(objs) : a # b /\ objs[a] # 0 => objs[a] # objs[b]
              /\ \A a \in 1..NH : \A b \in 1..Len(objs) : handles[a] # 0 => handles[a] # objs[b]
C15_Inv == TypeOK /\ NextFree /\ Consistent /\ last \in 0..(M - 1)

-----------------------------------------------------------------------------
(* Link to proofs/ToiAllocProof.tla (TLAPS, every M >= 2).  The proof module keeps <<next, reserved>> only, *)
(* takes the loop as an operator Adv with the lemma below, and proves Inv == next \in Vals /\ reserved   *)
(* \subseteq Vals /\ next \notin reserved.  TLC checks here (a) the lemma on the recursive Advance for     *)
(* every v and every reserved set of this M (c15.py runs it for M = 2..10), (b) that every step of this    *)
(* specification is a step of the proof module's Next (refinement on the bounded model).                  *)
Vals == 1..(M - 1)
AdvLemmaHolds == \A v \in Vals, res \in SUBSET Vals :
                    (\E w \in Vals : w \notin res) => Advance(v, res, M) \in Vals \ res
\* stronger than the lemma: the loop stops on the FIRST free value after v in cyclic order (0 skipped)
CycDist(v, w) == IF w > v THEN w - v ELSE w + (M - 1) - v
AdvFirstFree == \A v \in Vals, res \in SUBSET Vals :
                   (\E w \in Vals : w \notin res) =>
                      LET r == Advance(v, res, M) IN \A w \in Vals \ res : CycDist(v, r) <= CycDist(v, w)
AbsAlloc == /\ \E w \in Vals : w \notin (reserved \cup {next})
            /\ reserved' = reserved \cup {next}
            /\ next' = Advance(next, reserved \cup {next}, M)
AbsRelease == reserved' \subseteq reserved /\ next' = next
AbsStep == [][AbsAlloc \/ AbsRelease]_<<next, reserved>>

\* the model-checking view hides the history and the last result
MCView == <<next, reserved, handles, objs, added, Len(hist)>>

\* behaviour generation: print every history of exactly Depth operations (and the shorter maximal ones)
Emit == (Len(hist) >= Depth) => PrintT(<<"REPLAY", ToJson([fam |-> "toi", start |-> Start, ops |-> hist])>>)
=============================================================================
