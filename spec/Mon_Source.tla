------------------------------ MODULE Mon_Source ------------------------------
(* C20: the packets emitted for an object depend on its bytes and           *)
(* configuration only.  The trace holds groups of behaviours that differ    *)
(* only in how the object bytes are supplied (buffer / scripted stream with *)
(* a read-size schedule / file / BufReader); the first behaviour of a group *)
(* is the reference.  At the end of every other behaviour its whole packet  *)
(* sequence (every decoded field and the payload digest, timestamps apart)  *)
(* must equal the reference sequence - which also means that every repeated *)
(* transfer re-read the source from its start.                              *)
EXTENDS Integers, Sequences, VCommon, IOUtils
Rec == ndJsonDeserialize(IOEnv.TRACE)
VARIABLES l, beh, grp, role, seq, ref, dead
vars == <<l, beh, grp, role, seq, ref, dead>>
Init == l = 1 /\ beh = -1 /\ grp = -1 /\ role = "" /\ seq = <<>> /\ ref = <<>> /\ dead = FALSE
Abs(p) == IF p.k = "none" THEN <<"none">>
          ELSE IF p.k = "fdt" THEN <<"fdt", p.id, p.sbn, p.esi, p.B, p.len, p.got>>
          ELSE IF p.k = "obj" THEN <<"obj", p.o, p.sbn, p.esi, p.B, p.len, p.got, p.fti, p.cenc>>
          ELSE <<"bad">>
Next == /\ l <= Len(Rec)
        /\ LET e == Rec[l] IN
           IF e.ev = "reset" THEN
              /\ beh' = e.beh /\ seq' = <<>> /\ dead' = Has(e, "skip")
              /\ grp' = IF Has(e, "skip") THEN grp ELSE e.cfg.grp
              /\ role' = IF Has(e, "skip") THEN "" ELSE e.cfg.role
              /\ ref' = ref
           ELSE IF e.ev = "read" THEN
              /\ seq' = IF e.res = "ok" THEN Append(seq, Abs(e.p)) ELSE Append(seq, <<"panic">>)
              /\ (IF e.res = "ok" THEN TRUE ELSE Report("C20", "sender-panic", beh, l, e.m))
              /\ UNCHANGED <<beh, grp, role, ref, dead>>
           ELSE IF e.ev \in {"end", "dead"} /\ ~dead THEN
              /\ IF role = "ref" THEN ref' = seq
                 ELSE /\ ref' = ref
                      /\ Check(seq = ref, "C20", "packet-sequence-depends-on-how-the-bytes-are-supplied", beh, l,
                               <<grp, role, Len(seq), Len(ref),
                                 IF \E i \in 1..Len(seq) : i > Len(ref) \/ seq[i] # ref[i]
                                 THEN CHOOSE i \in 1..Len(seq) : (i > Len(ref) \/ seq[i] # ref[i])
                                        /\ \A j \in 1..(i - 1) : j <= Len(ref) /\ seq[j] = ref[j]
                                 ELSE 0>>)
              /\ UNCHANGED <<beh, grp, role, seq, dead>>
           ELSE UNCHANGED <<beh, grp, role, seq, ref, dead>>
        /\ l' = l + 1
Spec == Init /\ [][Next]_vars
AllConsumed == IF TLCGet("stats").diameter = Len(Rec) + 1 THEN TRUE
               ELSE PrintT(<<"UNCONSUMED", TLCGet("stats").diameter, Len(Rec)>>) /\ FALSE
=============================================================================
