----------------------------- MODULE Partition -----------------------------
(***************************************************************************)
(* RFC 5052 section 9.1 block partitioning, transcribed from the RFC text, *)
(* plus the derived byte layout used by every other specification.         *)
(*                                                                         *)
(*   Input:  B  maximum source block length (symbols)                      *)
(*           L  transfer length (octets)                                   *)
(*           E  encoding symbol length (octets)                            *)
(*   T = ceil(L/E), N = ceil(T/B), A_large = ceil(T/N), A_small =          *)
(*   floor(T/N), I = T - A_small*N; the first I blocks have A_large        *)
(*   symbols, the remaining N-I blocks have A_small symbols.               *)
(*                                                                         *)
(* This module is the independent implementation that flute's              *)
(* common/partition.rs (and its users in the sender and the receiver) is   *)
(* compared against (property C07) and the source of the block structure   *)
(* used by the sender and receiver monitors (C01, C02, C08, C16).          *)
(***************************************************************************)
EXTENDS Naturals, Sequences

Ceil(a, b)  == (a + b - 1) \div b
Floor(a, b) == a \div b
Min(a, b)   == IF a < b THEN a ELSE b
Max(a, b)   == IF a > b THEN a ELSE b

\* number of symbols and number of blocks
T(L, E)    == Ceil(L, E)
N(L, E, B) == Ceil(T(L, E), B)

ALarge(L, E, B)  == IF N(L, E, B) = 0 THEN 0 ELSE Ceil(T(L, E), N(L, E, B))
ASmall(L, E, B)  == IF N(L, E, B) = 0 THEN 0 ELSE Floor(T(L, E), N(L, E, B))
NbLarge(L, E, B) == IF N(L, E, B) = 0 THEN 0 ELSE T(L, E) - ASmall(L, E, B) * N(L, E, B)

\* the 4-tuple flute's block_partitioning returns
Quad(L, E, B) == <<ALarge(L, E, B), ASmall(L, E, B), NbLarge(L, E, B), N(L, E, B)>>

\* number of source symbols of block b (0-based)
BlockSyms(L, E, B, b) == IF b < NbLarge(L, E, B) THEN ALarge(L, E, B) ELSE ASmall(L, E, B)

\* number of symbols in blocks before block b
SymsBefore(L, E, B, b) ==
    IF b <= NbLarge(L, E, B)
    THEN b * ALarge(L, E, B)
    ELSE NbLarge(L, E, B) * ALarge(L, E, B) + (b - NbLarge(L, E, B)) * ASmall(L, E, B)

\* byte offset of block b and of symbol (b, esi)
BlockOffset(L, E, B, b)    == SymsBefore(L, E, B, b) * E
SymOffset(L, E, B, b, esi) == (SymsBefore(L, E, B, b) + esi) * E

\* byte length of block b: only the last block of the object can be short
BlockBytes(L, E, B, b) ==
    LET off == BlockOffset(L, E, B, b)
        full == BlockSyms(L, E, B, b) * E
    IN  IF off + full <= L THEN full ELSE IF off >= L THEN 0 ELSE L - off

\* byte length of source symbol (b, esi): only the last symbol can be short
SymBytes(L, E, B, b, esi) ==
    LET off == SymOffset(L, E, B, b, esi)
    IN  IF off + E <= L THEN E ELSE IF off >= L THEN 0 ELSE L - off

\* run-length encoding of the block byte lengths: <<count, bytes>> runs, zero
\* counts dropped, adjacent equal lengths merged
RECURSIVE MergeRuns(_)
MergeRuns(s) ==
    IF Len(s) <= 1 THEN s
    ELSE IF s[1][2] = s[2][2]
         THEN MergeRuns(<< <<s[1][1] + s[2][1], s[1][2]>> >> \o SubSeq(s, 3, Len(s)))
         ELSE <<s[1]>> \o MergeRuns(Tail(s))

BlockBytesRle(L, E, B) ==
    LET n  == N(L, E, B)
        nl == NbLarge(L, E, B)
        al == ALarge(L, E, B)
        as == ASmall(L, E, B)
        last == IF n = 0 THEN 0 ELSE BlockBytes(L, E, B, n - 1)
        \* all blocks except the last one are full
        largeFull == IF nl = n THEN nl - 1 ELSE nl           \* (n > 0)
        smallFull == IF nl = n THEN 0 ELSE n - nl - 1
        raw == << <<largeFull, al * E>>, <<smallFull, as * E>>, <<1, last>> >>
        nz  == SelectSeq(raw, LAMBDA r : r[1] > 0)
    IN  IF n = 0 THEN <<>> ELSE MergeRuns(nz)

\* receiver side: maximum source block length rebuilt from the number of
\* blocks Z carried by the RaptorQ / Raptor scheme specific information
BFromZ(L, Z, E) == Ceil(Ceil(L, Z), E)

-----------------------------------------------------------------------------
(* The theorems of property C07, as predicates over one triple.  They are  *)
(* evaluated on a record P computed once per triple (TLC does not cache    *)
(* operator applications), with the sums computed by explicit recursion    *)
(* over the blocks, not by a closed form.                                  *)

Part(L, E, B) == [L |-> L, E |-> E, B |-> B, t |-> T(L, E), n |-> N(L, E, B),
                  al |-> ALarge(L, E, B), as |-> ASmall(L, E, B), nl |-> NbLarge(L, E, B)]

PSyms(P, b)   == IF b < P.nl THEN P.al ELSE P.as
PBefore(P, b) == IF b <= P.nl THEN b * P.al ELSE P.nl * P.al + (b - P.nl) * P.as
PBytes(P, b)  == LET off == PBefore(P, b) * P.E  full == PSyms(P, b) * P.E
                 IN  IF off + full <= P.L THEN full ELSE IF off >= P.L THEN 0 ELSE P.L - off

RECURSIVE PSumSyms(_, _), PSumBytes(_, _)
PSumSyms(P, n)  == IF n = 0 THEN 0 ELSE PSumSyms(P, n - 1) + PSyms(P, n - 1)
PSumBytes(P, n) == IF n = 0 THEN 0 ELSE PSumBytes(P, n - 1) + PBytes(P, n - 1)

ThCoverageP(P) == PSumSyms(P, P.n) = P.t
ThBoundP(P)    == P.al <= P.B /\ P.as <= P.al /\ P.al - P.as <= 1
ThShapeP(P)    == /\ P.nl <= P.n
                  /\ (P.L > 0 => P.n >= 1 /\ P.as >= 1)
                  /\ (P.L = 0 => P.n = 0)
                  /\ (P.n > 0 => P.al = Ceil(P.t, P.n) /\ P.as = Floor(P.t, P.n)
                                 /\ P.nl = P.t - P.n * Floor(P.t, P.n))
ThBytesP(P)    == /\ PSumBytes(P, P.n) = P.L
                  /\ \A b \in 0..(P.n - 2) : PBytes(P, b) = PSyms(P, b) * P.E
                  /\ (P.n > 0 => /\ PBytes(P, P.n - 1) > (PSyms(P, P.n - 1) - 1) * P.E
                                 /\ PBytes(P, P.n - 1) <= PSyms(P, P.n - 1) * P.E)
\* both ends agree: the partition computed from the B rebuilt out of Z = N
ThAgreementP(P) == P.n > 0 => Quad(P.L, P.E, BFromZ(P.L, P.n, P.E)) = <<P.al, P.as, P.nl, P.n>>

AllTheorems(L, E, B) == LET P == Part(L, E, B) IN
                        /\ ThCoverageP(P) /\ ThBoundP(P) /\ ThShapeP(P)
                        /\ ThBytesP(P) /\ ThAgreementP(P)
=============================================================================
