----------------------------- MODULE Partition -----------------------------
(***************************************************************************)
(* Block partitioning: PartitionCore.tla (RFC 5052 section 9.1 verbatim)   *)
(* plus the recursive operators and the C07 theorems.                      *)
(*                                                                         *)
(*   Input:  B  maximum source block length (symbols)                      *)
(*           L  transfer length (octets)                                   *)
(*           E  encoding symbol length (octets)                            *)
(*   T = ceil(L/E), N = ceil(T/B), A_large = ceil(T/N), A_small =          *)
(*   floor(T/N), I = T - A_small*N; the first I blocks have A_large        *)
(*   symbols, the remaining N-I blocks have A_small symbols.               *)
(*                                                                         *)
(* This module is the independent implementation that flute's              *)
(* common/partition.rs (and its users in the sender and the receiver) is   *)
(* compared against (property C07) and the source of the block structure   *)
(* used by the sender and receiver monitors (C01, C02, C08, C16).          *)
(***************************************************************************)
EXTENDS PartitionCore, Sequences

\* run-length encoding of the block byte lengths: <<count, bytes>> runs, zero
\* counts dropped, adjacent equal lengths merged
RECURSIVE MergeRuns(_)
MergeRuns(s) ==
    IF Len(s) <= 1 THEN s
    ELSE IF s[1][2] = s[2][2]
         THEN MergeRuns(<< <<s[1][1] + s[2][1], s[1][2]>> >> \o SubSeq(s, 3, Len(s)))
         ELSE <<s[1]>> \o MergeRuns(Tail(s))

BlockBytesRle(L, E, B) ==
    LET n  == N(L, E, B)
        nl == NbLarge(L, E, B)
        al == ALarge(L, E, B)
        as == ASmall(L, E, B)
        last == IF n = 0 THEN 0 ELSE BlockBytes(L, E, B, n - 1)
        \* all blocks except the last one are full
        largeFull == IF nl = n THEN nl - 1 ELSE nl           \* (n > 0)
        smallFull == IF nl = n THEN 0 ELSE n - nl - 1
        raw == << <<largeFull, al * E>>, <<smallFull, as * E>>, <<1, last>> >>
        nz  == SelectSeq(raw, LAMBDA r : r[1] > 0)
    IN  IF n = 0 THEN <<>> ELSE MergeRuns(nz)

-----------------------------------------------------------------------------
(* The theorems of property C07, as predicates over one triple.  They are  *)
(* evaluated on a record P computed once per triple (TLC does not cache    *)
(* operator applications), with the sums computed by explicit recursion    *)
(* over the blocks, not by a closed form.                                  *)

Part(L, E, B) == [L |-> L, E |-> E, B |-> B, t |-> T(L, E), n |-> N(L, E, B),
                  al |-> ALarge(L, E, B), as |-> ASmall(L, E, B), nl |-> NbLarge(L, E, B)]

PSyms(P, b)   == IF b < P.nl THEN P.al ELSE P.as
PBefore(P, b) == IF b <= P.nl THEN b * P.al ELSE P.nl * P.al + (b - P.nl) * P.as
PBytes(P, b)  == LET off == PBefore(P, b) * P.E  full == PSyms(P, b) * P.E
                 IN  IF off + full <= P.L THEN full ELSE IF off >= P.L THEN 0 ELSE P.L - off

RECURSIVE PSumSyms(_, _), PSumBytes(_, _)
PSumSyms(P, n)  == IF n = 0 THEN 0 ELSE PSumSyms(P, n - 1) + PSyms(P, n - 1)
PSumBytes(P, n) == IF n = 0 THEN 0 ELSE PSumBytes(P, n - 1) + PBytes(P, n - 1)

ThCoverageP(P) == PSumSyms(P, P.n) = P.t
ThBoundP(P)    == P.al <= P.B /\ P.as <= P.al /\ P.al - P.as <= 1
ThShapeP(P)    == /\ P.nl <= P.n
                  /\ (P.L > 0 => P.n >= 1 /\ P.as >= 1)
                  /\ (P.L = 0 => P.n = 0)
                  /\ (P.n > 0 => P.al = Ceil(P.t, P.n) /\ P.as = Floor(P.t, P.n)
                                 /\ P.nl = P.t - P.n * Floor(P.t, P.n))
ThBytesP(P)    == /\ PSumBytes(P, P.n) = P.L
                  /\ \A b \in 0..(P.n - 2) : PBytes(P, b) = PSyms(P, b) * P.E
                  /\ (P.n > 0 => /\ PBytes(P, P.n - 1) > (PSyms(P, P.n - 1) - 1) * P.E
                                 /\ PBytes(P, P.n - 1) <= PSyms(P, P.n - 1) * P.E)
\* both ends agree: the partition computed from the B rebuilt out of Z = N
ThAgreementP(P) == P.n > 0 => Quad(P.L, P.E, BFromZ(P.L, P.n, P.E)) = <<P.al, P.as, P.nl, P.n>>

AllTheorems(L, E, B) == LET P == Part(L, E, B) IN
                        /\ ThCoverageP(P) /\ ThBoundP(P) /\ ThShapeP(P)
                        /\ ThBytesP(P) /\ ThAgreementP(P)
=============================================================================
