---------------------------- MODULE Trace_Receiver ----------------------------
(***************************************************************************)
(* Conformance of recorded receiver traces with the mechanism              *)
(* specification Receiver.tla: every recorded call (push of packet i at    *)
(* receiver time ts, cleanup, drop) is applied to the specification and    *)
(* its outputs are compared with what the real receiver did:               *)
(*   - the callbacks of the call (session events, and per object the       *)
(*     sequence new / open / write(len, result) / complete / error /       *)
(*     interrupted), and                                                   *)
(*   - the projection of the containers (objects being received with state,*)
(*     cached packets, writer state, attached instance, first block of the *)
(*     window, OTI known; registries of completed and failed objects;      *)
(*     current and unfinished FDT instances) against the hook snapshot.    *)
(* One line per behaviour: MATCH, DRIFT (first difference) or UNSUPPORTED  *)
(* (the behaviour uses something the mechanism specification does not      *)
(* model).  This is binding evidence, not the verdict (see DESIGN.md).     *)
(***************************************************************************)
EXTENDS Receiver, Json, IOUtils, VCommon
Rec == ndJsonDeserialize(IOEnv.TRACE)
SessIdx == {i \in 1..Len(Rec) : Rec[i].ev = "session"}
SS == [sid \in {Rec[i].sid : i \in SessIdx} |-> Rec[CHOOSE i \in SessIdx : Rec[i].sid = sid]]

-----------------------------------------------------------------------------
(* what the mechanism specification models *)
SupportedSession(S) ==
  /\ S.skip = "" /\ ~S.sender_dead
  /\ \A o \in 1..Len(S.objs) : S.objs[o].scheme \in {0, 5, 129, 1, 6} /\ S.objs[o].L >= 0
  /\ S.cfg.fdt_cenc = 0 /\ S.cfg.scheme \in {0, 5, 129}
SupportedBeh(S, e) ==
  /\ Len(e.streams) = 1
  /\ e.fam \in {"subsets", "dups", "perms", "join", "clean", "writer", "expiry", "expiry2", "corrupt"}
  \* writer scripts are indexed by creation order, which depends on a hash map when several objects attach at once
  \* a compressed object is written in the chunks of the decompressor: its write callbacks are not compared
  /\ ((\E o \in 1..Len(S.objs) : S.objs[o].cenc # 0) => e.w.write_fail = <<>>)
  /\ (Len(S.objs) > 1 => e.w.ans = <<>> /\ e.w.open_fail = <<>> /\ e.w.write_fail = <<>>)
  /\ e.rcfg.obj_to < 0 /\ e.rcfg.sess_to < 0 /\ ~e.rcfg.filtering

WhyBeh(S, e) ==
  IF Len(e.streams) # 1 THEN "several-streams"
  ELSE IF e.fam \notin {"subsets", "dups", "perms", "join", "clean", "writer", "expiry", "expiry2", "corrupt"} THEN "family-" \o e.fam
  ELSE IF (\E o \in 1..Len(S.objs) : S.objs[o].cenc # 0) /\ e.w.write_fail # <<>> THEN "failing-write-of-a-compressed-object"
  ELSE IF Len(S.objs) > 1 /\ ~(e.w.ans = <<>> /\ e.w.open_fail = <<>> /\ e.w.write_fail = <<>>) THEN "writer-script-with-several-objects"
  ELSE "time-outs-or-filtering"

-----------------------------------------------------------------------------
(* normalisation of callbacks: writers are named by their object *)
RECURSIVE WMap(_, _)
\* writer id -> object, from the "new" callbacks seen so far (wm) and in this call
WMap(wm, cbs) == IF cbs = <<>> THEN wm
                 ELSE LET c == Head(cbs) IN
                      WMap(IF c.k = "new" THEN [x \in DOMAIN wm \cup {c.w} |-> IF x = c.w THEN c.o ELSE wm[x]] ELSE wm, Tail(cbs))
ObjOf(wm, w) == IF w \in DOMAIN wm THEN wm[w] ELSE 0
Compressed(S, o) == o >= 1 /\ o <= Len(S.objs) /\ S.objs[o].cenc # 0
NormCb(S, wm, c) ==
  CASE c.k \in {"sopen", "sclosed", "fdtrx"} -> <<0, c.k>>
    [] c.k = "new" -> <<c.o, "new", c.ans>>
    [] c.k = "open" -> <<ObjOf(wm, c.w), "open", c.res>>
    [] c.k = "write" -> IF Compressed(S, ObjOf(wm, c.w)) THEN <<-1, "write">> ELSE <<ObjOf(wm, c.w), "write", c.len, c.res>>
    [] c.k \in {"complete", "error", "interrupted"} -> <<ObjOf(wm, c.w), c.k>>
    [] OTHER -> <<-1, c.k>>
Norm(S, wm, cbs) == LET m2 == WMap(wm, cbs) IN SelectSeq([i \in 1..Len(cbs) |-> NormCb(S, m2, cbs[i])], LAMBDA t : t[1] >= 0)
\* per-object subsequences (object 0: session level)
PerObj(ns) == [o \in {ns[i][1] : i \in 1..Len(ns)} |-> SelectSeq(ns, LAMBDA t : t[1] = o)]

-----------------------------------------------------------------------------
(* projection of the snapshot *)
SnapProj(st) ==
  IF Len(st.sess) = 0 THEN [n |-> 0, ne |-> 0, objs |-> <<>>, done |-> {}, err |-> {}, fc |-> <<>>, fr |-> {}]
  ELSE LET s == st.sess[1] IN
  [ n |-> Len(s.objs), ne |-> s.nerr,
    objs |-> [o \in {s.objs[j].o : j \in 1..Len(s.objs)} |->
                LET x == s.objs[CHOOSE j \in 1..Len(s.objs) : s.objs[j].o = o] IN
                [st |-> x.st, cp |-> x.cp, w |-> x.w, fdt |-> x.fdt, bo |-> x.bo, oti |-> x.oti]],
    done |-> {s.done[j] : j \in 1..Len(s.done)}, err |-> {s.err[j] : j \in 1..Len(s.err)},
    fc |-> [j \in 1..Len(s.fc) |-> s.fc[j][1]],
    fr |-> {s.fr[j][1] : j \in 1..Len(s.fr)} ]

\* writer ids are private to each side (creation order may differ): wmm names the model's writers, wm the real ones
Diff(S, r1, wmm, wm, e) ==
  LET mine == PerObj(Norm(S, wmm, r1.cb))
      real == PerObj(Norm(S, wm, e.cb))
  IN  IF mine # real THEN <<"callbacks", mine, real>>
      ELSE IF Has(e, "st") /\ ProjRx(r1) # SnapProj(e.st) THEN <<"state", ProjRx(r1), SnapProj(e.st)>>
      ELSE <<>>

-----------------------------------------------------------------------------
\* cands: the set of model states <<r, wmm>> that explain the trace so far.  The decoding of a fountain-code block
\* with repair symbols is not determined by the model (see Receiver!Decodable) and may stay hidden for several calls
\* (a decoded block of an object that has no writer yet): every explanation is kept until a call refutes it.
VARIABLES l, cands, wm, sid, status, beh
\* status: "off" (no behaviour), "ok", "drift", "unsupported"
vars == <<l, cands, wm, sid, status, beh>>
Init == l = 1 /\ cands = {} /\ wm = <<>> /\ sid = -1 /\ status = "off" /\ beh = -1

Fountain(S) == \E o \in 1..Len(S.objs) : S.objs[o].scheme \in {1, 6}
Oracles(S) == IF Fountain(S) THEN {TRUE, FALSE} ELSE {TRUE}
Stored(r1) == [r1 EXCEPT !.cb = <<>>, !.fd = TRUE, !.alt = FALSE]
\* an altered packet is modelled when only payload bytes of an uncompressed object were changed (same length)
Altered(e) == Has(e, "mut")
\* (a flip inside the padding of the last source symbol does not change the content: not modelled)
ModelledAlteration(S, e) ==
  LET p == S.pkts[e.i] IN
  /\ e.mut[1] = "payflip" /\ p.k = "obj" /\ ~Compressed(S, p.o)
  /\ LET ob == S.objs[p.o]
         k == BlockSyms(ob.L, ob.E, ob.B, p.sbn)
         off == IF e.mut[2] = 0 THEN 0 ELSE IF e.mut[2] = 1 THEN p.len \div 2 ELSE p.len - 1
     IN  ob.L > 0 /\ (p.esi >= k \/ off < SymBytes(ob.L, ob.E, ob.B, p.sbn, p.esi))
\* successors of the candidate c under the call e that agree with what the real receiver did
Succ(S, c, e) ==
  LET outs == IF e.ev = "push" THEN {Push(S, c[1], e.i, e.ts, fd, Altered(e)) : fd \in Oracles(S)}
              ELSE IF e.ev = "cleanup" THEN {Cleanup(S, c[1], e.ts)} ELSE {Drop(c[1])}
  IN  {<<IF e.ev = "drop" THEN InitRx(r1.rcfg, r1.ws) ELSE Stored(r1), WMap(c[2], r1.cb)>> :
          r1 \in {x \in outs : Diff(S, x, c[2], wm, e) = <<>>}}
\* the difference reported when no candidate explains the call (first candidate, oracle TRUE)
FirstDiff(S, e) ==
  LET c == CHOOSE x \in cands : TRUE
      r1 == IF e.ev = "push" THEN Push(S, c[1], e.i, e.ts, TRUE, Altered(e)) ELSE IF e.ev = "cleanup" THEN Cleanup(S, c[1], e.ts) ELSE Drop(c[1])
  IN  Diff(S, r1, c[2], wm, e)

Off == cands' = {} /\ wm' = <<>> /\ sid' = -1 /\ status' = "off"
Unsupported(why) == /\ status' = "unsupported" /\ cands' = {} /\ UNCHANGED <<wm, sid>>
                    /\ PrintT(<<"UNSUPPORTED", ToJson([beh |-> beh, why |-> why])>>)

Next ==
  /\ l <= Len(Rec)
  /\ l' = l + 1
  /\ beh' = IF Rec[l].ev = "reset" THEN Rec[l].beh ELSE beh
  /\ LET e == Rec[l] IN
     CASE e.ev = "session" -> UNCHANGED <<cands, wm, sid, status>>
       [] e.ev = "reset" ->
            IF Has(e, "skip") \/ e.sid \notin DOMAIN SS THEN Off
            ELSE LET S == SS[e.sid] IN
                 /\ sid' = e.sid /\ wm' = <<>>
                 /\ IF SupportedSession(S) /\ SupportedBeh(S, e)
                    THEN cands' = {<<InitRx(e.rcfg, e.w), <<>> >>} /\ status' = "ok"
                    ELSE cands' = {} /\ status' = "unsupported"
                         /\ PrintT(<<"UNSUPPORTED", ToJson([beh |-> e.beh, why |-> IF SupportedSession(S) THEN WhyBeh(S, e) ELSE "session"])>>)
       [] e.ev = "end" ->
            /\ IF status = "ok" THEN PrintT(<<"MATCH", e.beh>>) ELSE TRUE
            /\ Off
       [] OTHER ->
            IF status # "ok" THEN UNCHANGED <<cands, wm, sid, status>>
            ELSE LET S == SS[sid] IN
            IF e.ev = "sleep" THEN UNCHANGED <<cands, wm, sid, status>>
            ELSE IF e.ev \notin {"push", "cleanup", "drop"} THEN Unsupported("event-" \o e.ev)
            ELSE IF e.res # "ok" THEN Unsupported(e.ev \o "-" \o e.res)
            ELSE IF e.ev = "push" /\ (e.i < 1 \/ e.i > Len(S.pkts) \/ (Has(e, "sid") /\ e.sid # sid))
                 THEN Unsupported("foreign-packet")
            ELSE IF e.ev = "push" /\ Altered(e) /\ ~ModelledAlteration(S, e)
                 THEN Unsupported("alteration-" \o e.mut[1])
            ELSE LET next == UNION {Succ(S, c, e) : c \in cands} IN
                 IF next # {} THEN
                    IF Cardinality(next) > 16 THEN Unsupported("more-than-16-explanations")
                    ELSE cands' = next /\ wm' = WMap(wm, e.cb) /\ status' = "ok" /\ sid' = sid
                 ELSE LET d == FirstDiff(S, e) IN
                      /\ PrintT(<<"DRIFT", ToJson([beh |-> beh, line |-> l, i |-> IF e.ev = "push" THEN e.i ELSE 0, call |-> e.ev,
                                                    explanations |-> Cardinality(cands), what |-> d[1], model |-> d[2], real |-> d[3]])>>)
                      /\ cands' = {} /\ status' = "drift" /\ UNCHANGED <<wm, sid>>
Spec == Init /\ [][Next]_vars
AllConsumed == IF TLCGet("stats").diameter = Len(Rec) + 1 THEN TRUE
               ELSE PrintT(<<"UNCONSUMED", TLCGet("stats").diameter, Len(Rec)>>) /\ FALSE
=============================================================================
