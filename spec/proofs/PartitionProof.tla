--------------------------- MODULE PartitionProof ---------------------------
(***************************************************************************)
(* TLAPS proof, for ALL positive T (symbols) and N (blocks), of the        *)
(* coverage / shape theorem behind C07 that MC_Partition checks on a grid: *)
(* with A_large = ceil(T/N), A_small = floor(T/N), I = T - A_small * N     *)
(* (RFC 5052 section 9.1): 0 <= I < N, I blocks of A_large plus N - I      *)
(* blocks of A_small cover exactly T symbols, and A_large - A_small is 1   *)
(* when I > 0 and 0 otherwise; A_large <= B when N = ceil(T/B); and the    *)
(* corollary RFC5052 states both for the operators of PartitionCore.tla    *)
(* (the text TLC and Apalache evaluate) for all L, E, B >= 1.              *)
(***************************************************************************)
EXTENDS PartitionCore, TLAPS

LEMMA DivFacts == \A a \in Nat, b \in Nat \ {0} : /\ a = b * (a \div b) + (a % b)
                                                  /\ 0 <= a % b /\ a % b < b /\ a \div b \in Nat /\ a % b \in Nat
  OBVIOUS

LEMMA MulMono == \A b \in Nat, x \in Nat, y \in Nat : x <= y => b * x <= b * y
  <1> TAKE b \in Nat, x \in Nat, y \in Nat
  <1> HAVE x <= y
  <1> DEFINE d == y - x
  <1>1. d \in Nat /\ y = x + d
    OBVIOUS
  <1>2. b * y = b * x + b * d
    BY <1>1, Z3
  <1>3. b * d \in Nat
    BY <1>1, Z3
  <1>4. b * x \in Nat
    BY Z3
  <1> QED
    BY <1>2, <1>3, <1>4
LEMMA DivUnique == \A a \in Nat, b \in Nat \ {0}, q \in Nat, r \in Nat : (a = b * q + r /\ r < b) => a \div b = q
  <1> TAKE a \in Nat, b \in Nat \ {0}, q \in Nat, r \in Nat
  <1> HAVE a = b * q + r /\ r < b
  <1> DEFINE q2 == a \div b
  <1> DEFINE r2 == a % b
  <1>1. a = b * q2 + r2 /\ r2 \in Nat /\ r2 < b /\ q2 \in Nat
    BY DivFacts
  <1>2. ~(q + 1 <= q2)
    <2> SUFFICES ASSUME q + 1 <= q2 PROVE FALSE
      OBVIOUS
    <2>1. b * (q + 1) <= b * q2
      BY MulMono
    <2>2. b * (q + 1) = b * q + b
      BY Z3
    <2>3. b * q \in Nat /\ b * q2 \in Nat
      BY <1>1, Z3
    <2>4. b * q + b <= b * q2
      BY <2>1, <2>2
    <2>5. b * q2 <= a
      BY <1>1, <2>3
    <2>6. a < b * q + b
      BY <2>3
    <2> QED
      BY <2>4, <2>5, <2>6, <2>3
  <1>3. ~(q2 + 1 <= q)
    <2> SUFFICES ASSUME q2 + 1 <= q PROVE FALSE
      OBVIOUS
    <2>1. b * (q2 + 1) <= b * q
      BY <1>1, MulMono
    <2>2. b * (q2 + 1) = b * q2 + b
      BY <1>1, Z3
    <2>3. b * q \in Nat /\ b * q2 \in Nat
      BY <1>1, Z3
    <2> QED
      BY <2>1, <2>2, <2>3, <1>1
  <1> QED
    BY <1>1, <1>2, <1>3

THEOREM Coverage ==
  ASSUME NEW T \in Nat \ {0}, NEW N \in Nat \ {0}
  PROVE  LET AL == Ceil(T, N)  AS == Floor(T, N)  NL == T - AS * N IN
         /\ NL \in Nat /\ NL < N
         /\ NL * AL + (N - NL) * AS = T
         /\ (NL > 0 => AL = AS + 1)
         /\ (NL = 0 => AL = AS)
  <1> DEFINE AS == T \div N
  <1> DEFINE R == T % N
  <1>1. T = N * AS + R /\ 0 <= R /\ R < N /\ AS \in Nat /\ R \in Nat
    BY DivFacts
  <1>2. T - AS * N = R
    BY <1>1
  <1>3. CASE R = 0
    <2>1. T + N - 1 = N * AS + (N - 1)
      BY <1>1, <1>3
    <2>2. (T + N - 1) \div N = AS
      <3>1. N - 1 \in Nat /\ N - 1 < N /\ T + N - 1 \in Nat
        BY <1>1
      <3> QED
        BY <2>1, <1>1, <3>1, DivUnique
    <2>3. R * AS + (N - R) * AS = T
      BY <1>1, <1>3
    <2> QED
      BY <1>1, <1>2, <1>3, <2>2, <2>3 DEF Ceil, Floor
  <1>4. CASE R > 0
    <2>1. T + N - 1 = N * (AS + 1) + (R - 1)
      BY <1>1, <1>4
    <2>2. (T + N - 1) \div N = AS + 1
      BY <2>1, <1>1, <1>4, DivUnique
    <2>3. R * (AS + 1) + (N - R) * AS = T
      <3>1. R * (AS + 1) = R * AS + R
        BY <1>1
      <3>2. (N - R) * AS = N * AS - R * AS
        BY <1>1
      <3> QED
        BY <3>1, <3>2, <1>1
    <2> QED
      BY <1>1, <1>2, <1>4, <2>2, <2>3 DEF Ceil, Floor
  <1> QED
    BY <1>1, <1>3, <1>4

(* A_large never exceeds the maximum source block length B when N = ceil(T/B) (RFC 5052: N is chosen that way) *)
THEOREM Bound ==
  ASSUME NEW T \in Nat \ {0}, NEW B \in Nat \ {0}
  PROVE  LET N == Ceil(T, B) IN N \in Nat \ {0} /\ T <= N * B /\ Ceil(T, N) <= B
  <1> DEFINE N == (T + B - 1) \div B
  <1> DEFINE r == (T + B - 1) % B
  <1>1. T + B - 1 \in Nat
    OBVIOUS
  <1>2. T + B - 1 = B * N + r /\ r \in Nat /\ r < B /\ N \in Nat
    BY <1>1, DivFacts
  <1>3. B * N \in Nat
    BY <1>2, Z3
  <1>4. T <= B * N
    BY <1>2, <1>3
  <1>5. N # 0
    <2> SUFFICES ASSUME N = 0 PROVE FALSE
      OBVIOUS
    <2>1. B * N = 0
      BY Z3
    <2> QED
      BY <2>1, <1>4
  <1>6. B * N = N * B
    BY <1>2, Z3
  <1> DEFINE q == (T + N - 1) \div N
  <1> DEFINE r2 == (T + N - 1) % N
  <1>7. T + N - 1 \in Nat /\ N \in Nat \ {0}
    BY <1>2, <1>5
  <1>8. T + N - 1 = N * q + r2 /\ r2 \in Nat /\ r2 < N /\ q \in Nat
    BY <1>7, DivFacts
  <1>9. ~(B + 1 <= q)
    <2> SUFFICES ASSUME B + 1 <= q PROVE FALSE
      OBVIOUS
    <2>1. N * (B + 1) <= N * q
      BY <1>7, <1>8, MulMono
    <2>2. N * (B + 1) = N * B + N
      BY <1>7, Z3
    <2>3. N * q \in Nat /\ N * B \in Nat
      BY <1>7, <1>8, Z3
    <2>4. N * q <= T + N - 1
      BY <1>8, <2>3
    <2>5. T + N - 1 < N * B + N
      BY <1>4, <1>6, <1>7, <2>3
    <2> QED
      BY <2>1, <2>2, <2>3, <2>4, <2>5
  <1> QED
    BY <1>2, <1>4, <1>5, <1>6, <1>8, <1>9 DEF Ceil

LEMMA CeilPos == \A a \in Nat \ {0}, b \in Nat \ {0} : Ceil(a, b) \in Nat \ {0}
  <1> TAKE a \in Nat \ {0}, b \in Nat \ {0}
  <1> DEFINE q == (a + b - 1) \div b
  <1> DEFINE r == (a + b - 1) % b
  <1>1. a + b - 1 \in Nat
    OBVIOUS
  <1>2. a + b - 1 = b * q + r /\ r \in Nat /\ r < b /\ q \in Nat
    BY <1>1, DivFacts
  <1>3. q # 0
    <2> SUFFICES ASSUME q = 0 PROVE FALSE
      OBVIOUS
    <2>1. b * q = 0
      BY Z3
    <2> QED
      BY <2>1, <1>2
  <1> QED
    BY <1>2, <1>3 DEF Ceil

(* the statement for the operators of PartitionCore.tla *)
THEOREM RFC5052 ==
  ASSUME NEW L \in Nat \ {0}, NEW E \in Nat \ {0}, NEW B \in Nat \ {0}
  PROVE  /\ N(L, E, B) \in Nat \ {0}
         /\ NbLarge(L, E, B) \in Nat /\ NbLarge(L, E, B) < N(L, E, B)
         /\ NbLarge(L, E, B) * ALarge(L, E, B) + (N(L, E, B) - NbLarge(L, E, B)) * ASmall(L, E, B) = T(L, E)
         /\ ALarge(L, E, B) <= B
         /\ (NbLarge(L, E, B) > 0 => ALarge(L, E, B) = ASmall(L, E, B) + 1)
         /\ (NbLarge(L, E, B) = 0 => ALarge(L, E, B) = ASmall(L, E, B))
  <1> DEFINE Tt == Ceil(L, E)
  <1> DEFINE Nn == Ceil(Tt, B)
  <1>1. Tt \in Nat \ {0}
    BY CeilPos
  <1>2. Nn \in Nat \ {0} /\ Ceil(Tt, Nn) <= B
    BY <1>1, Bound
  <1>3. LET AL == Ceil(Tt, Nn)  AS == Floor(Tt, Nn)  NL == Tt - AS * Nn IN
         /\ NL \in Nat /\ NL < Nn
         /\ NL * AL + (Nn - NL) * AS = Tt
         /\ (NL > 0 => AL = AS + 1)
         /\ (NL = 0 => AL = AS)
    BY <1>1, <1>2, Coverage
  <1> QED
    BY <1>1, <1>2, <1>3 DEF T, N, ALarge, ASmall, NbLarge
=============================================================================
