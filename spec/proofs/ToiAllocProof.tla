--------------------------- MODULE ToiAllocProof ---------------------------
(***************************************************************************)
(* Unbounded part of C15 on the allocator mechanism: for EVERY width       *)
(* (M = 2^w, any M >= 2) the value an allocation returns is non-zero,      *)
(* inside the width and not held by a live handle / object.                *)
(*                                                                         *)
(* The allocator of ToiAlloc.tla projected on <<next, reserved>>:          *)
(*   Alloc    = ToiAlloc!Alloc, ToiAlloc!Add       (returns next)          *)
(*   Release  = ToiAlloc!DropH, ToiAlloc!Finish    (any subset released)   *)
(*   stutter  = ToiAlloc!AddWith                                           *)
(* TLC checks that projection as the action property AbsStep of            *)
(* ToiAlloc.tla (refinement on the bounded model), and checks the loop     *)
(* lemma AdvLemma on the recursive operator ToiAlloc!Advance exhaustively  *)
(* for every M in 2..10, every v and every reserved set (MC_ToiAdvance).   *)
(* TLAPS proves the invariant for all M from the lemma.                    *)
(***************************************************************************)
EXTENDS Naturals, TLAPS
CONSTANTS M, Adv(_, _)
Vals == 1..(M - 1)
ASSUME MType == M \in Nat /\ M >= 2
\* the loop of ToiAllocatorInternal::allocate ends on a free value whenever one exists
ASSUME AdvLemma == \A v \in Vals, res \in SUBSET Vals :
                      (\E w \in Vals : w \notin res) => Adv(v, res) \in Vals \ res
VARIABLES next, reserved
vars == <<next, reserved>>

Init == next \in Vals /\ reserved = {}
\* guard: a value remains free after this allocation (Live + 1 < M - 1; the code would spin otherwise)
Alloc == /\ \E w \in Vals : w \notin (reserved \cup {next})
         /\ reserved' = reserved \cup {next}
         /\ next' = Adv(next, reserved \cup {next})
Release == /\ reserved' \subseteq reserved
           /\ next' = next
Next == Alloc \/ Release
Spec == Init /\ [][Next]_vars

\* next is what the next allocation returns: non-zero, within the width, not live
Inv == next \in Vals /\ reserved \subseteq Vals /\ next \notin reserved

LEMMA InitInv == Init => Inv
  BY DEF Init, Inv

LEMMA StepInv == Inv /\ [Next]_vars => Inv'
<1> SUFFICES ASSUME Inv, [Next]_vars PROVE Inv'
  OBVIOUS
<1>1. CASE Alloc
  <2> DEFINE res == reserved \cup {next}
  <2>1. res \in SUBSET Vals
    BY DEF Inv
  <2>2. \E w \in Vals : w \notin res
    BY <1>1 DEF Alloc
  <2>3. Adv(next, res) \in Vals \ res
    BY <2>1, <2>2, AdvLemma DEF Inv
  <2>4. next' = Adv(next, res) /\ reserved' = res
    BY <1>1 DEF Alloc
  <2> QED
    BY <2>1, <2>3, <2>4 DEF Inv
<1>2. CASE Release
  BY <1>2 DEF Release, Inv
<1>3. CASE UNCHANGED vars
  BY <1>3 DEF vars, Inv
<1> QED
  BY <1>1, <1>2, <1>3 DEF Next

THEOREM Safety == Spec => []Inv
  BY InitInv, StepInv, PTL DEF Spec

\* C15 as stated on an allocation step: the returned value is non-zero, below 2^w and not live
THEOREM AllocSafe == Inv /\ Alloc => next # 0 /\ next < M /\ next \notin reserved /\ next \in reserved'
  BY MType DEF Inv, Alloc, Vals
=============================================================================
