----------------------------- MODULE MC_Receiver -----------------------------
(***************************************************************************)
(* Model checking of the receiver: the mechanism specification             *)
(* Receiver.tla, driven by EVERY sequence of pushes (any order, duplicates *)
(* and losses included, at most two copies of a packet, MaxPush pushes), a *)
(* clock jump beyond the FDT expiry and the final drop, for small abstract *)
(* sessions and every receiver configuration / writer script of the grid,  *)
(* composed with the property monitors of ReceiverProps.tla.  Every call   *)
(* is turned into the event the harness would record (same fields), fed to *)
(* the monitor, and the invariant is that no monitor conjunct is violated: *)
(* the mechanism implies C01 (clean run), C02, C03, C09, C17 (containers)  *)
(* and C19 for ALL histories within the bounds.  Payload bytes, digests    *)
(* and metadata strings are below the abstraction and are supplied ideal.  *)
(*                                                                         *)
(* Variant = "ok" is the specification of the code (bound to it by         *)
(* Trace_Receiver); the other variants deliberately break one rule of the  *)
(* mechanism and must make TLC report the named monitor conjunct (vacuity  *)
(* guard of the monitors, run by the checks as a self-test).               *)
(***************************************************************************)
EXTENDS ReceiverProps
CONSTANTS MaxPush, Variant, SessSet, CfgSet
RX == INSTANCE Receiver

\* ---- abstract sessions ---------------------------------------------------------
Cfg0 == [E |-> 2048, B |-> 8, scheme |-> 0, par |-> 0, tsi |-> 1, tick_us |-> 1000, groups |-> <<>>, fdt_dur |-> 3600, fdt_cenc |-> 0]
MkObj(o, L, E, B, sch, par, fti) ==
  [o |-> o, L |-> L, E |-> E, B |-> B, scheme |-> sch, par |-> par, fti |-> fti, cenc |-> 0, icenc |-> FALSE, clen |-> L,
   loc |-> "l", type |-> "t", md5 |-> "", etag |-> "", groups |-> <<>>, cache |-> <<"none">>, car |-> <<"none">>, digest |-> "d"]
FdtPk(i, id, t) ==
  [i |-> i, t |-> t, k |-> "fdt", o |-> 0, id |-> id, sbn |-> 0, esi |-> 0, A |-> FALSE, B |-> FALSE, len |-> 100, size |-> 150,
   fti |-> TRUE, fl |-> 100, sct |-> TRUE, scts |-> t \div 1000, cencx |-> 0, sbl |-> -1]
ObjPk(i, o, ob, sbn, esi, last, t) ==
  [i |-> i, t |-> t, k |-> "obj", o |-> o, id |-> -1, sbn |-> sbn, esi |-> esi, A |-> FALSE, B |-> last, len |-> ob.E, size |-> ob.E + 40,
   fti |-> ob.fti, fl |-> IF ob.fti THEN ob.L ELSE -1, sct |-> FALSE, scts |-> 0, cencx |-> -1, sbl |-> IF ob.scheme = 129 THEN BlockSyms(ob.L, ob.E, ob.B, sbn) ELSE -1]
Fdt1(files) == [id |-> 1, L |-> 100, exp |-> 3600, files |-> files, entries |-> [j \in 1..Len(files) |-> [o |-> files[j], cache |-> <<"none", 0>>]]]
MkSess(objs, pkts, files, xfers) ==
  [sid |-> 0, skip |-> "", sender_dead |-> FALSE, cfg |-> Cfg0, objs |-> objs, pkts |-> pkts, fdts |-> <<Fdt1(files)>>,
   xfers |-> xfers, accepted |-> files, maxpkt |-> 150, toinum |-> [o \in 1..Len(objs) |-> o]]

\* 1: No-Code, 12 bytes in blocks of 2 + 1 symbols, OTI from the FDT only
S1 == LET ob == MkObj(1, 12, 4, 2, 0, 0, FALSE) IN
      MkSess(<<ob>>, <<FdtPk(1, 1, 0), ObjPk(2, 1, ob, 0, 0, FALSE, 0), ObjPk(3, 1, ob, 0, 1, FALSE, 0), ObjPk(4, 1, ob, 1, 0, TRUE, 0)>>, <<1>>, <<1>>)
\* 2: Reed-Solomon GF(2^8), one block of 2 source + 1 repair symbols, in-band OTI
S2 == LET ob == MkObj(1, 8, 4, 2, 5, 1, TRUE) IN
      MkSess(<<ob>>, <<FdtPk(1, 1, 0), ObjPk(2, 1, ob, 0, 0, FALSE, 0), ObjPk(3, 1, ob, 0, 1, FALSE, 0), ObjPk(4, 1, ob, 0, 2, TRUE, 0)>>, <<1>>, <<1>>)
\* 3: two objects (one symbol; empty), the first one sent twice (carousel), FDT repeated
S3 == LET a == MkObj(1, 4, 4, 2, 0, 0, TRUE)  b == MkObj(2, 0, 4, 2, 0, 0, FALSE) IN
      MkSess(<<a, b>>, <<FdtPk(1, 1, 0), ObjPk(2, 1, a, 0, 0, TRUE, 0), ObjPk(3, 2, b, 0, 0, TRUE, 0), FdtPk(4, 1, 1000), ObjPk(5, 1, a, 0, 0, TRUE, 1000)>>,
             <<1, 2>>, <<2, 1>>)
\* 4: Reed-Solomon under-specified (FEC 129), two blocks, OTI from the FDT only
S4 == LET ob == MkObj(1, 12, 4, 2, 129, 1, FALSE) IN
      MkSess(<<ob>>, <<FdtPk(1, 1, 0), ObjPk(2, 1, ob, 0, 0, FALSE, 0), ObjPk(3, 1, ob, 0, 1, FALSE, 0), ObjPk(4, 1, ob, 0, 2, FALSE, 0),
                       ObjPk(5, 1, ob, 1, 0, FALSE, 0), ObjPk(6, 1, ob, 1, 1, TRUE, 0)>>, <<1>>, <<1>>)
Sessions == <<S1, S2, S3, S4>>

\* ---- receiver configurations and writer scripts ----------------------------------
RCfg(once, expiry) == [once |-> once, expiry |-> expiry, max_cache |-> -1, max_err |-> 0, obj_to |-> -1, sess_to |-> -1, filtering |-> FALSE,
                       variant |-> Variant]
WScripts == << [ans |-> <<>>, open_fail |-> <<>>, write_fail |-> <<>>, md5 |-> TRUE],
               [ans |-> <<"already">>, open_fail |-> <<>>, write_fail |-> <<>>, md5 |-> TRUE],
               [ans |-> <<"abort">>, open_fail |-> <<>>, write_fail |-> <<>>, md5 |-> TRUE],
               [ans |-> <<>>, open_fail |-> <<1>>, write_fail |-> <<>>, md5 |-> TRUE],
               [ans |-> <<>>, open_fail |-> <<>>, write_fail |-> << <<1, 1>> >>, md5 |-> TRUE],
               [ans |-> <<>>, open_fail |-> <<>>, write_fail |-> << <<1, 2>> >>, md5 |-> TRUE] >>
\* <<once, expiry check, writer script, clean run (every packet once, in order)>>
Cfgs == << <<TRUE, TRUE, 1, FALSE>>, <<FALSE, TRUE, 1, FALSE>>, <<TRUE, TRUE, 1, TRUE>>, <<FALSE, TRUE, 1, TRUE>>,
           <<TRUE, TRUE, 2, FALSE>>, <<TRUE, TRUE, 3, FALSE>>, <<TRUE, TRUE, 4, FALSE>>, <<TRUE, TRUE, 5, FALSE>>, <<TRUE, TRUE, 6, FALSE>>,
           <<TRUE, FALSE, 1, FALSE>> >>

VARIABLES si, ci, r, m, now, count, np, phase, bad
vars == <<si, ci, r, m, now, count, np, phase, bad>>
S == Sessions[si]
Clean == Cfgs[ci][4]

\* ---- events as the harness records them --------------------------------------------
MetaOf(o, hint) == LET ob == S.objs[o] IN
  [loc |-> ob.loc, clen |-> ob.clen, tlen |-> ob.L, type |-> ob.type, md5 |-> ob.md5, etag |-> ob.etag, cenc |-> ob.cenc, groups |-> ob.groups,
   E |-> ob.E, scheme |-> ob.scheme, B |-> ob.B, cache |-> <<"hint", hint>>]
\* the object of a writer: from the "new" callbacks of the monitor state and of this call
WObj(cbs, w) == LET I == {j \in 1..Len(cbs) : cbs[j].k = "new" /\ cbs[j].w = w} IN
                IF I # {} THEN cbs[CHOOSE j \in I : TRUE].o ELSE IF w \in DOMAIN m.W THEN m.W[w].o ELSE 0
MonCb(cbs, c, t) ==
  CASE c.k \in {"sopen", "sclosed"} -> [k |-> c.k, ep |-> 10, tsi |-> 1]
    [] c.k = "fdtrx" -> [k |-> "fdtrx", ep |-> 10, tsi |-> 1, ts |-> t]
    [] c.k = "new" -> [k |-> "new", w |-> c.w, o |-> c.o, ans |-> c.ans, ep |-> 10, tsi |-> 1, toix |-> "1", ts |-> t, meta |-> MetaOf(c.o, c.hint)]
    [] c.k = "open" -> [k |-> "open", w |-> c.w, res |-> c.res, ts |-> t]
    [] c.k = "write" -> [k |-> "write", w |-> c.w, len |-> c.len, tot |-> c.tot, res |-> c.res, got |-> "g", exp |-> "g"]
    [] c.k = "complete" -> [k |-> "complete", w |-> c.w, tot |-> c.tot, dg |-> "d"]
    [] c.k \in {"error", "interrupted"} -> [k |-> c.k, w |-> c.w]
    [] OTHER -> [k |-> "other"]
MonCbs(cbs, t) == [j \in 1..Len(cbs) |-> MonCb(cbs, cbs[j], t)]
Snap(rr) ==
  LET os == SetToSeq(DOMAIN rr.objects) IN
  [n |-> Len(os), ne |-> Cardinality(rr.errors), heap |-> 0,
   sess |-> << [nerr |-> Cardinality(rr.errors),
                objs |-> [j \in 1..Len(os) |-> [o |-> os[j], cb |-> rr.objects[os[j]].csize, ab |-> rr.objects[os[j]].abytes]],
                fr |-> <<>>] >>]
PushEv(rr, i, t) == [ev |-> "push", i |-> i, res |-> "ok", ep |-> 10, sid |-> 0, ts |-> t, ms |-> 0, cb |-> MonCbs(rr.cb, t), st |-> Snap(rr)]
DropEv(rr, t) == [ev |-> "drop", res |-> "ok", final |-> TRUE, ts |-> t, cb |-> MonCbs(rr.cb, t)]

Feed(mm, e) == <<Viol(S, mm, e), Step(S, mm, e)>>

\* ---- composition -------------------------------------------------------------------------
Init == /\ si \in SessSet /\ ci \in CfgSet
        /\ r = RX!InitRx(RCfg(Cfgs[ci][1], Cfgs[ci][2]), WScripts[Cfgs[ci][3]])
        /\ m = NewMon([beh |-> 0, sid |-> 0, rcfg |-> RCfg(Cfgs[ci][1], Cfgs[ci][2]), w |-> WScripts[Cfgs[ci][3]],
                       fam |-> IF Cfgs[ci][4] THEN "clean" ELSE "dups", heap0 |-> 0])
        /\ now = 0 /\ count = [i \in 1..Len(Sessions[si].pkts) |-> 0] /\ np = 0 /\ phase = "run" /\ bad = <<>>

\* the fountain-code oracle is irrelevant here (no Raptor / RaptorQ object in the abstract sessions)
EnvPush(i) ==
  /\ phase = "run" /\ np < MaxPush /\ count[i] < 2
  /\ Clean => (count[i] = 0 /\ \A j \in 1..(i - 1) : count[j] = 1)
  /\ LET t == IF Clean THEN S.pkts[i].t \div 1000 ELSE now
         r1 == RX!Push(S, r, i, t, TRUE, FALSE)
         f == Feed(m, PushEv(r1, i, t)) IN
     r' = r1 /\ m' = f[2] /\ bad' = f[1]
  /\ count' = [count EXCEPT ![i] = @ + 1] /\ np' = np + 1 /\ UNCHANGED <<si, ci, now, phase>>
\* the receiver clock jumps beyond the expiry of the FDT instance (3600 s)
EnvJump ==
  /\ phase = "run" /\ ~Clean /\ now = 0 /\ now' = 4000 /\ bad' = <<>>
  \* not a pure loss run any more: C02 / C16 are stated for unexpired instances (the expiry family of the checks)
  /\ m' = [m EXCEPT !.explicitOps = TRUE]
  /\ UNCHANGED <<si, ci, r, count, np, phase>>
\* drop of the receiver, then the end of the behaviour
EnvDrop ==
  /\ phase = "run" /\ (Clean => \A j \in 1..Len(S.pkts) : count[j] = 1)
  /\ LET r1 == RX!Drop(r)
         f == Feed(m, DropEv(r1, now)) IN
     r' = r1 /\ m' = f[2] /\ bad' = f[1]
  /\ phase' = "dropped" /\ UNCHANGED <<si, ci, now, count, np>>
EnvEnd ==
  /\ phase = "dropped"
  /\ LET f == Feed(m, [ev |-> "end", beh |-> 0, dead |-> FALSE]) IN m' = f[2] /\ bad' = f[1]
  /\ phase' = "end" /\ UNCHANGED <<si, ci, r, now, count, np>>
Next == (\E i \in 1..Len(S.pkts) : EnvPush(i)) \/ EnvJump \/ EnvDrop \/ EnvEnd
Spec == Init /\ [][Next]_vars

NoViolation == bad = <<>>
ShowBad == bad = <<>> \/ PrintT(<<"BAD", [j \in 1..Len(bad) |-> <<bad[j][1], bad[j][2]>>], si, ci, count, now>>)
\* the callbacks (observation) do not distinguish states of the mechanism
MCView == <<si, ci, [r EXCEPT !.cb = <<>>], m, now, count, np, phase, bad>>
=============================================================================
