---------------------------- MODULE SenderProps ----------------------------
(***************************************************************************)
(* Property monitors for the sender side of ypo/flute:                     *)
(*   C08 symbol discipline and end flags      C12 transfer lifecycle       *)
(*   C10 FDT instances                        C13 scheduling               *)
(*   C11 announce before send                 C14 timing                   *)
(* (plus the wire-level parts of C01/C06/C15 that are visible in a sender  *)
(* trace).                                                                 *)
(*                                                                         *)
(* A monitor is a deterministic automaton over OBSERVABLE events only: API *)
(* calls with arguments and results, subscriber callbacks, packets decoded *)
(* by the harness's own RFC decoder, the public projection (nb_objects,    *)
(* is_added, nb_transfers) and - for the timing of automatic publications  *)
(* only - the next-FDT-id counter read by the hook snapshot.  Monitors say  *)
(* what the property text allows and nothing more; where the text is       *)
(* ambiguous the weaker obligation is checked (see DESIGN.md section 7).   *)
(*                                                                         *)
(* Checks(m, e) is the sequence of <<property, name, holds, witness>> to    *)
(* evaluate when event e arrives in monitor state m; Step(m, e) is the     *)
(* next monitor state.  The same operators are used on recorded traces     *)
(* (Mon_Sender) and composed with the mechanism specification (MC_Sender). *)
(***************************************************************************)
EXTENDS Partition, FiniteSets, VCommon, SequencesExt

SeqToSet(s) == {s[i] : i \in 1..Len(s)}
IdMod == 1048576

-----------------------------------------------------------------------------
(* catalogue access *)
Obj(m, o)   == m.objs[o]
NObj(m)     == Len(m.objs)
Q(m, o)     == Obj(m, o).q
OL(m, o)    == Obj(m, o).L
OE(m, o)    == Obj(m, o).E
OB(m, o)    == Obj(m, o).B
Par(m, o)   == Obj(m, o).par
NBlk(m, o)  == N(OL(m, o), OE(m, o), OB(m, o))
K(m, o, b)  == BlockSyms(OL(m, o), OE(m, o), OB(m, o), b)
NSrc(m, o)  == T(OL(m, o), OE(m, o))
Car(m, o)   == Obj(m, o).car[1]
CarD(m, o)  == Obj(m, o).car[2]
Count(m, o) == Obj(m, o).count
Tgt(m, o)   == Obj(m, o).target[1]
Paced(m, o) == Tgt(m, o) \in {"dur", "time"}
Slots(m, q) == LET e == CHOOSE x \in SeqToSet(m.cfg.queues) : x[1] = q
               IN  IF e[2] = 0 THEN 1 ELSE e[2]
FullMode(m) == m.cfg.mode = "full"
InQ(m, S, q) == {x \in S : Q(m, x) = q}

FreshCur(t) == [sent |-> {}, last |-> <<>>, n |-> 0, bseen |-> FALSE, t0 |-> t, seen |-> {}, maxsbn |-> -1]

NewMon(e) ==
  LET n == Len(e.objs) IN
  [ beh |-> e.beh, cfg |-> e.cfg, objs |-> e.objs,
    live |-> {}, added |-> <<>>, removed |-> {}, inx |-> {}, pub |-> {},
    xn |-> [o \in 1..n |-> 0], bc |-> [o \in 1..n |-> 0],
    started |-> {},
    lastEnd |-> [o \in 1..n |-> -1], lastStart |-> [o \in 1..n |-> -1],
    startT |-> [o \in 1..n |-> e.objs[o].start],
    cur |-> [o \in 1..n |-> FreshCur(0)],
    stopp |-> [o \in 1..n |-> FALSE], since |-> [o \in 1..n |-> 0],
    sentSince |-> [o \in 1..n |-> {}], joined |-> [o \in 1..n |-> {}],
    fdtid |-> e.cfg.fdt_start, nextwire |-> e.cfg.fdt_start, wireids |-> {},
    created |-> <<>>,      \* sequence of [id, t, cands, complete] not yet judged
    content |-> <<>>,      \* sequence of [id, c] for judged instances (wrap window: all of the behaviour)
    pending |-> {}, fdtdone |-> {}, announced |-> {},
    complete |-> FALSE, lastT |-> 0, sameT |-> 0, lastRead |-> -1, newestExp |-> -1 ]

-----------------------------------------------------------------------------
(* subscriber events inside one read call *)

SubStart(m, o, t) ==
  [m EXCEPT !.inx = @ \cup {o}, !.lastStart[o] = t, !.started = @ \cup {o},
            !.bc[o] = IF m.bc[o] >= Count(m, o) /\ Car(m, o) # "none" THEN 0 ELSE @,
            !.cur[o] = FreshCur(t), !.sentSince[o] = {},
            !.joined = [x \in DOMAIN @ |-> IF x # o /\ x \in m.inx /\ Q(m, x) = Q(m, o)
                                           THEN @[x] \cup {o} ELSE IF x = o THEN {} ELSE @[x]]]

SubStop(m, o, t) ==
  LET xn1  == m.xn[o] + 1
      gone == o \in m.live /\ Car(m, o) = "none" /\ xn1 >= Count(m, o)
  IN  [m EXCEPT !.inx = @ \ {o}, !.xn[o] = xn1, !.bc[o] = @ + 1, !.lastEnd[o] = t,
                !.live = IF gone THEN @ \ {o} ELSE @]

ApplySub(m, s, t) == IF s[2] = 0 THEN m
                     ELSE IF s[1] = "start" THEN SubStart(m, s[2], t) ELSE SubStop(m, s[2], t)

\* MS(m, subs, t)[i] is the monitor state before the i-th sub event; the last element is the state after all
RECURSIVE MS(_, _, _)
MS(m, subs, t) == IF subs = <<>> THEN <<m>> ELSE <<m>> \o MS(ApplySub(m, Head(subs), t), Tail(subs), t)

AllSrcSent(m, o) == \A b \in 0..(NBlk(m, o) - 1) : \A x \in 0..(K(m, o, b) - 1) : <<b, x>> \in m.cur[o].sent

SubChecks(m, s, t) ==
  LET o == s[2] IN
  IF o = 0 THEN << <<"C15", "subscriber-event-for-unknown-toi", FALSE, s>> >>
  ELSE IF s[1] = "start" THEN
    << <<"C12", "start-of-object-not-in-sender", o \in m.live, <<o, t>> >>,
      <<"C12", "start-while-already-in-transfer", o \notin m.inx, <<o, t>> >>,
      <<"C14", "start-before-transfer-start-time", m.startT[o] = -1 \/ t >= m.startT[o], <<o, t, m.startT[o]>> >>,
      <<"C14", "carousel-gap-too-short",
          IF m.bc[o] >= Count(m, o) /\ Car(m, o) # "none" /\ m.lastEnd[o] # -1 /\ m.lastStart[o] # -1
          THEN IF Car(m, o) = "delay" THEN t >= m.lastEnd[o] + CarD(m, o) ELSE t >= m.lastStart[o] + CarD(m, o)
          ELSE TRUE, <<o, t, m.lastEnd[o], m.lastStart[o]>> >>,
      <<"C13", "more-objects-in-transfer-than-multiplex-files",
          Cardinality(InQ(m, m.inx, Q(m, o)) \ {o}) + 1 <= Slots(m, Q(m, o)), <<o, m.inx>> >>,
      <<"C13", "start-order-not-fifo",
          o \in m.started \/
          ~\E o2 \in (m.live \ m.inx) \ {o} :
              /\ Q(m, o2) = Q(m, o) /\ o2 \notin m.started
              /\ (m.startT[o2] = -1 \/ m.startT[o2] <= t)
              /\ (\E i, j \in 1..Len(m.added) : m.added[i] = o2 /\ m.added[j] = o /\ i < j),
          <<o, t, m.added>> >> >>
  ELSE
    << <<"C12", "stop-without-start", o \in m.inx, <<o, t>> >>,
      <<"C08", "transfer-ended-without-all-source-symbols",
          (o \in m.removed /\ m.stopp[o]) \/ o \notin m.inx \/ AllSrcSent(m, o), <<o, m.cur[o].sent>> >>,
      <<"C08", "source-symbols-do-not-rebuild-the-object",
          IF o \in m.inx /\ AllSrcSent(m, o) /\ ~(o \in m.removed /\ m.stopp[o])
          THEN s[3] = Obj(m, o).digest ELSE TRUE, <<o, s[3]>> >> >>

-----------------------------------------------------------------------------
(* FDT instance bookkeeping *)

NCreated(m, st) == (st.fdtid + IdMod - m.fdtid) % IdMod
Cands(m, states) == IF FullMode(m) THEN {states[i].live : i \in 1..Len(states)}
                    ELSE {states[i].live \cap states[i].inx : i \in 1..Len(states)}
RECURSIVE NewCreated(_, _, _, _, _)
NewCreated(id, k, t, cands, compl) ==
  IF k = 0 THEN <<>>
  ELSE <<[id |-> id, t |-> t, cands |-> cands, complete |-> compl]>> \o NewCreated((id + 1) % IdMod, k - 1, t, cands, compl)

Create(m, k, t, cands) ==
  [m EXCEPT !.created = @ \o NewCreated(m.fdtid, k, t, cands, m.complete),
            !.pending = @ \cup {(m.fdtid + i) % IdMod : i \in 0..(k - 1)},
            !.fdtid = (@ + k) % IdMod,
            !.pub = IF k > 0 THEN @ \cup UNION cands ELSE @]

TickMs(m) == m.cfg.tick_us \div 1000          \* traces use tick_us that is a multiple of 1000 or 1000000
SecOf(m, t) == IF m.cfg.tick_us >= 1000000 THEN t * (m.cfg.tick_us \div 1000000)
               ELSE t \div (1000000 \div m.cfg.tick_us)
TicksPerSec(m) == IF m.cfg.tick_us >= 1000000 THEN 1 ELSE 1000000 \div m.cfg.tick_us

\* total number of packets of one complete transfer of o
RECURSIVE SumK(_, _, _)
SumK(m, o, b) == IF b = 0 THEN 0 ELSE SumK(m, o, b - 1) + K(m, o, b - 1) + Par(m, o)
SumN(m, o) == IF OL(m, o) = 0 THEN 1 ELSE SumK(m, o, NBlk(m, o))

-----------------------------------------------------------------------------
(* packets *)

PacketChecksObj(m, m1, p, t) ==
  LET o == p.o IN
  IF o = 0 THEN << <<"C15", "packet-with-toi-of-no-added-object", FALSE, p.toix>> >>
  ELSE IF Obj(m, o).L < 0 THEN
    \* transfer length of 2^31 or more (limit cases, fake stream): only the announced length is judged
    << <<"C01", "fti-does-not-carry-the-object-parameters",
          IF Obj(m, o).fti THEN Has(p.fti, "L") /\ p.fti.Lx = Obj(m, o).Lx /\ p.fti.E = OE(m, o) ELSE TRUE, <<o, p.fti>> >> >>
  ELSE
  LET c    == m1.cur[o]
      L    == OL(m, o)  E == OE(m, o)  B == OB(m, o)
      nb   == NBlk(m, o)
      kb   == IF p.sbn < nb THEN K(m, o, p.sbn) ELSE 0
      src  == p.esi < kb
      last == IF p.sbn \in DOMAIN c.last THEN c.last[p.sbn] ELSE -1
      empty == L = 0
      \* blocks opened and not yet fully emitted, this packet included
      sentB(b) == Cardinality({x \in c.sent : x[1] = b}) + (IF b = p.sbn THEN 1 ELSE 0)
      open == {b \in c.seen \cup {p.sbn} : b < nb /\ sentB(b) < K(m, o, b) + Par(m, o)}
      forcedNow == o \in m1.removed /\ m1.stopp[o]
      finalXfer == Car(m, o) = "none" /\ m1.xn[o] + 1 = Count(m, o)
      nsrc == NSrc(m, o)
      dur  == IF Tgt(m, o) = "dur" THEN Obj(m, o).target[2]
              ELSE IF Tgt(m, o) = "time" THEN Max2(0, Obj(m, o).target[2] - c.t0) ELSE 0
      higherInX == {x \in m1.inx : Q(m, x) < Q(m, o)}
      higherWaiting == {x \in m1.live \ m1.inx : Q(m, x) < Q(m, o)}
      freshEligible(x) == /\ x \notin m1.started /\ (FullMode(m) => x \in m.pub)
                          /\ (m1.startT[x] = -1 \/ m1.startT[x] <= t)
      freeSlot(q) == Cardinality(InQ(m, m1.inx, q)) < Slots(m, q)
      peers == (InQ(m, m1.inx, Q(m, o)) \cap InQ(m, m.inx, Q(m, o))) \ {o}
  IN
  << <<"C12", "packet-of-object-not-in-transfer", o \in m1.inx, <<o, p.sbn, p.esi>> >>,
    <<"C11", "object-packet-before-complete-fdt-listing-it", o \in m1.announced, <<o, t>> >>,
    <<"C11", "object-packet-while-new-fdt-pending", m1.pending = {}, <<o, m1.pending>> >>,
    <<"C08", "close-session-flag-on-object-packet", ~p.A, o>>,
    <<"C08", "codepoint-is-not-the-fec-encoding-id", p.cp = Obj(m, o).scheme, <<o, p.cp>> >>,
    <<"C08", "symbol-sent-twice-in-one-transfer", <<p.sbn, p.esi>> \notin c.sent, <<o, p.sbn, p.esi>> >>,
    <<"C08", "esi-not-increasing-within-block", p.esi > last, <<o, p.sbn, p.esi, last>> >>,
    <<"C08", "symbol-outside-partition",
        IF empty THEN p.sbn = 0 /\ p.esi = 0 ELSE p.sbn < nb /\ p.esi < kb + Par(m, o), <<o, p.sbn, p.esi, nb, kb>> >>,
    \* FEC 129 carries the source block length in the payload id: it must be the length of that block in the partition
    <<"C08", "source-block-length-field-differs-from-the-partition",
        empty \/ p.sbl < 0 \/ p.sbn >= nb \/ p.sbl = kb, <<o, p.sbn, p.sbl, kb>> >>,
    <<"C08", "source-payload-is-not-the-rfc-slice",
        IF src THEN /\ p.off = SymOffset(L, E, B, p.sbn, p.esi)
                    /\ p.got \in {p.exp, p.expp}
                    /\ p.len \in {SymBytes(L, E, B, p.sbn, p.esi), E}
        ELSE IF empty THEN p.len = 0 ELSE TRUE, <<o, p.sbn, p.esi, p.len, p.off>> >>,
    <<"C08", "packet-after-close-object-flag", ~c.bseen, <<o, p.sbn, p.esi>> >>,
    <<"C08", "close-object-flag-not-allowed-here",
        p.B => \/ empty /\ c.n = 0
               \/ forcedNow /\ m1.since[o] = 0
               \/ finalXfer, <<o, p.sbn, p.esi, m1.xn[o]>> >>,
    <<"C08", "empty-object-not-a-lone-flagged-packet", empty => c.n = 0 /\ p.B /\ p.len = 0, <<o, c.n>> >>,
    <<"C12", "more-than-one-packet-after-removal", forcedNow => m1.since[o] = 0 /\ p.B, <<o, m1.since[o], p.B>> >>,
    <<"C01", "fti-does-not-carry-the-object-parameters",
        IF Obj(m, o).fti
        THEN /\ Has(p.fti, "L") /\ p.fti.Lx = Obj(m, o).Lx /\ p.fti.E = E
             /\ (Obj(m, o).scheme \in {0, 5, 129} => p.fti.B = B)
             /\ (Obj(m, o).scheme \in {5, 129} => p.fti.maxn = B + Par(m, o))
             /\ (Obj(m, o).scheme \in {1, 6} => nb = 0 \/ p.fti.Z = nb)
        ELSE ~Has(p.fti, "L"), <<o, p.fti>> >>,
    <<"C01", "cenc-extension-wrong", p.cenc = IF Obj(m, o).icenc THEN Obj(m, o).cenc ELSE -1, <<o, p.cenc>> >>,
    <<"C13", "lower-priority-packet-while-higher-priority-in-transfer",
        \A x \in higherInX : Paced(m, x), <<o, higherInX>> >>,
    <<"C13", "lower-priority-packet-while-higher-priority-object-could-start",
        \A x \in higherWaiting : ~(freshEligible(x) /\ freeSlot(Q(m, x))), <<o, higherWaiting>> >>,
    <<"C13", "more-objects-in-transfer-than-multiplex-files",
        \A x \in m1.inx : Cardinality(InQ(m, m1.inx, Q(m, x))) <= Slots(m, Q(m, x)), m1.inx>>,
    <<"C13", "not-round-robin",
        c.n = 0 \/ \A x \in peers : x \in m1.sentSince[o] \/ x \in m1.joined[o] \/ Paced(m, x) \/ Paced(m, o),
        <<o, peers, m1.sentSince[o]>> >>,
    <<"C13", "more-open-blocks-than-interleave-blocks", Cardinality(open) <= m.cfg.interleave, <<o, open>> >>,
    <<"C13", "blocks-not-opened-in-increasing-order",
        p.sbn \in c.seen \/ p.sbn > c.maxsbn, <<o, p.sbn, c.maxsbn>> >>,
    <<"C14", "paced-packet-too-early",
        IF Paced(m, o) /\ nsrc > 0 THEN (t - c.t0) * nsrc >= c.n * dur ELSE TRUE, <<o, t, c.t0, c.n, dur, nsrc>> >> >>

PacketChecksFdt(m, m1, p, t) ==
  << <<"C10", "fdt-packet-without-instance-id", p.id >= 0, p>>,
    <<"C10", "instance-ids-not-consecutive",
        p.id \in m1.wireids \/ p.id = m1.nextwire, <<p.id, m1.nextwire>> >>,
    <<"C10", "instance-id-on-wire-never-published",
        p.id \in m1.wireids \/ \E i \in 1..Len(m1.created) : m1.created[i].id = p.id, <<p.id>> >>,
    <<"C08", "close-session-flag-on-fdt-packet", ~p.A, p.id>>,
    <<"C06", "sender-current-time-is-not-now",
        IF m.cfg.sct THEN p.sct.k = "sct" /\ p.sct.ms = t * TickMs(m) ELSE p.sct.k = "none", <<p.sct, t>> >>,
    <<"C10", "fdt-packet-without-fti", Has(p.fti, "L"), p.id>> >>

NoneChecks(m, m1, t) ==
  LET freshEligible(x) == /\ x \notin m1.started /\ (FullMode(m) => x \in m.pub)
                          /\ (m1.startT[x] = -1 \/ m1.startT[x] <= t)
      freeSlot(q) == Cardinality(InQ(m, m1.inx, q)) < Slots(m, q)
  IN
  << <<"C12", "nothing-to-send-while-unpaced-object-in-transfer",
        \A o \in m1.inx : Paced(m, o), m1.inx>>,
    <<"C11", "nothing-to-send-while-new-fdt-pending", m1.pending = {}, m1.pending>>,
    <<"C12", "nothing-to-send-while-object-could-start",
        \A o \in m1.live \ m1.inx : ~(freshEligible(o) /\ freeSlot(Q(m, o))), <<t, m1.live \ m1.inx>> >>,
    <<"C14", "paced-packet-overdue-but-nothing-sent",
        \A o \in m1.inx :
           LET c == m1.cur[o]  nsrc == NSrc(m, o)
               dur == IF Tgt(m, o) = "dur" THEN Obj(m, o).target[2]
                      ELSE IF Tgt(m, o) = "time" THEN Max2(0, Obj(m, o).target[2] - c.t0) ELSE 0
               total == SumN(m, o)
           IN  ~(Paced(m, o) /\ nsrc > 0 /\ c.n < total /\ (t - 1 - c.t0) * nsrc >= c.n * dur
                 /\ ~(o \in m1.removed /\ m1.stopp[o]) /\ m1.pending = {}),
        <<t, m1.inx>> >> >>

-----------------------------------------------------------------------------
(* projection checks after any call that carries a projection `st` *)
ProjChecks(m2, st) ==
  << <<"C12", "live-set-differs-from-is-added", SeqToSet(st.live) = m2.live, <<st.live, m2.live>> >>,
    <<"C12", "nb-objects-differs", st.n = Cardinality(m2.live), <<st.n, m2.live>> >>,
    <<"C12", "nb-transfers-differs-from-completed-transfers",
        \A i \in 1..Len(st.xf) : st.xf[i][2] = m2.xn[st.xf[i][1]], <<st.xf, m2.xn>> >> >>

-----------------------------------------------------------------------------
(* the read event *)
ReadStates(m, e) == MS(m, e.sub, e.t)
AfterSubs(m, e)  == LET s == ReadStates(m, e) IN s[Len(s)]
AfterCreate(m, e) ==
  LET s == ReadStates(m, e) m1 == s[Len(s)] IN Create(m1, NCreated(m1, e.st), e.t, Cands(m, s))

ReadBudget(m) ==
  LET RECURSIVE Sum(_)
      Sum(o) == IF o = 0 THEN 0 ELSE Sum(o - 1) + Count(m, o) * (SumN(m, o) + 1)
  IN  4 * Sum(NObj(m)) + 200 + 8 * (NObj(m) + 4) * (Ceil(4000, m.cfg.E) + 4)

StepPacketObj(m1, p, t) ==
  LET o == p.o c == m1.cur[o] IN
  IF o = 0 \/ m1.objs[o].L < 0 THEN m1 ELSE
  [m1 EXCEPT !.cur[o] = [c EXCEPT !.sent = @ \cup {<<p.sbn, p.esi>>},
                                   !.last = [b \in DOMAIN @ \cup {p.sbn} |-> IF b = p.sbn THEN p.esi ELSE @[b]],
                                   !.n = @ + 1, !.bseen = @ \/ p.B,
                                   !.seen = @ \cup {p.sbn}, !.maxsbn = Max2(@, p.sbn)],
             !.since[o] = IF o \in m1.removed THEN @ + 1 ELSE @,
             !.sentSince = [x \in DOMAIN @ |-> IF x = o THEN {} ELSE @[x] \cup {o}],
             !.joined[o] = {}]

StepRead(m, e) ==
  LET m1 == AfterCreate(m, e)
      p  == e.p
      m2 == IF p.k = "obj" THEN StepPacketObj(m1, p, e.t)
            ELSE IF p.k = "fdt" /\ p.id >= 0 /\ p.id \notin m1.wireids
                 THEN [m1 EXCEPT !.wireids = @ \cup {p.id}, !.nextwire = (p.id + 1) % IdMod]
                 ELSE m1
  IN  [m2 EXCEPT !.sameT = IF e.t = m.lastT /\ p.k # "none" THEN @ + 1 ELSE 0, !.lastT = e.t, !.lastRead = e.t]

ReadChecks(m, e) ==
  IF e.res = "panic" THEN << <<"C14", "sender-panic", FALSE, <<"read", e.t, e.m>> >> >> ELSE
  LET s  == ReadStates(m, e)
      m0 == s[Len(s)]
      m1 == AfterCreate(m, e)
      p  == e.p
      m2 == StepRead(m, e)
  IN  FlattenSeq([i \in 1..Len(e.sub) |-> SubChecks(s[i], e.sub[i], e.t)])
      \o (IF p.k = "none" THEN NoneChecks(m, m1, e.t)
            ELSE IF p.k = "obj" THEN PacketChecksObj(m, m1, p, e.t)
            ELSE IF p.k = "fdt" THEN PacketChecksFdt(m, m1, p, e.t)
            ELSE << <<"C06", "sender-emitted-undecodable-packet", FALSE, p>> >>)
      \o ProjChecks(m2, e.st)
      \o << \* (reported once, at the first read beyond the budget)
             <<"C12", "reads-at-one-instant-do-not-terminate", m2.sameT # ReadBudget(m) + 1, <<e.t, m2.sameT>> >>,
             <<"C10", "newest-instance-expired-although-polled",
                 \* judged when the previous poll was at most one second ago
                 IF m.lastRead >= 0 /\ (e.t - m.lastRead) <= TicksPerSec(m) /\ m2.newestExp >= 0
                    /\ Len(m2.created) = 0
                 THEN m2.newestExp + 1 > SecOf(m, e.t) ELSE TRUE, <<e.t, m2.newestExp>> >> >>

-----------------------------------------------------------------------------
(* a completely emitted FDT instance, parsed by an independent XML parser *)

FileOti(f, inst) == IF Has(f.oti, "enc") THEN f.oti ELSE inst.oti
ExpCache(m, o, tc) ==
  LET c == Obj(m, o).cache IN
  IF c[1] = "none" THEN <<"none", 0>>
  ELSE IF c[1] = "nocache" THEN <<"nocache", 0>>
  ELSE IF c[1] = "maxstale" THEN <<"maxstale", 0>>
  ELSE IF c[1] = "expires" THEN <<"expires", SecOf(m, tc) + c[2]>>
  ELSE <<"expires", c[2]>>

FileChecks(m, f, inst, tc) ==
  LET o == f.o IN
  IF o = 0 THEN << <<"C10", "fdt-lists-unknown-toi", FALSE, f.toi>> >> ELSE
  LET ob == Obj(m, o) oti == FileOti(f, inst) IN
  << <<"C10", "content-location-altered", f.loc = ob.loc, <<o, f.loc, ob.loc>> >>,
    \* lengths of 2^31 and more are compared as hexadecimal strings (TLC integers are 32 bits wide)
    <<"C10", "content-length-altered", IF ob.clen >= 0 THEN f.clen = ob.clen ELSE f.clenx = ob.clenx, <<o, f.clen, f.clenx>> >>,
    <<"C10", "transfer-length-altered", IF ob.L >= 0 THEN f.tlen = ob.L ELSE f.tlenx = ob.Lx, <<o, f.tlen, ob.L, f.tlenx>> >>,
    <<"C10", "content-type-altered", f.type = ob.type, <<o, f.type>> >>,
    <<"C10", "content-encoding-altered", f.cenc = ob.cenc, <<o, f.cenc, ob.cenc>> >>,
    <<"C10", "content-md5-altered", f.md5 = ob.md5, <<o, f.md5, ob.md5>> >>,
    <<"C10", "etag-altered", f.etag = ob.etag, <<o, f.etag, ob.etag>> >>,
    <<"C10", "object-groups-altered", SeqToSet(f.groups) = SeqToSet(ob.groups) /\ Len(f.groups) = Len(ob.groups), <<o, f.groups, ob.groups>> >>,
    <<"C10", "cache-directive-altered", <<f.cache[1], f.cache[2]>> = ExpCache(m, o, tc), <<o, f.cache, ExpCache(m, o, tc)>> >>,
    <<"C10", "fec-oti-altered",
        /\ Has(oti, "enc") /\ oti.enc = ob.scheme /\ oti.E = ob.E /\ oti.B = ob.B
        /\ (ob.scheme \in {5, 129} => oti.maxn = ob.B + ob.par)
        /\ (ob.scheme \in {1, 6} => ob.L <= 0 \/ oti.Z = N(ob.L, ob.E, ob.B)), <<o, oti>> >> >>

FdtChecks(m, e) ==
  IF ~e.ok THEN << <<"C10", "fdt-instance-is-not-well-formed-xml", FALSE, e.id>> >> ELSE
  LET known == {i \in 1..Len(m.content) : m.content[i].id = e.id}
      cr    == {i \in 1..Len(m.created) : m.created[i].id = e.id}
      files == {e.files[i].o : i \in 1..Len(e.files)}
  IN
  IF known # {} THEN
     << <<"C10", "one-instance-id-two-contents", m.content[CHOOSE i \in known : TRUE].c = e.c, e.id>> >>
  ELSE IF cr = {} THEN << <<"C10", "instance-never-published", FALSE, e.id>> >>
  ELSE
  LET c == m.created[CHOOSE i \in cr : TRUE] IN
  << <<"C10", "fdt-does-not-list-exactly-the-announced-objects",
        files \in c.cands /\ Cardinality(files) = Len(e.files), <<e.id, files, c.cands>> >>,
    <<"C10", "expires-is-not-publish-time-plus-duration", e.exp = SecOf(m, c.t) + m.cfg.fdt_dur, <<e.id, e.exp, c.t>> >>,
    <<"C10", "complete-attribute-wrong", e.complete = c.complete, <<e.id, e.complete>> >>,
    <<"C10", "fullfdt-attribute-wrong", e.full = FullMode(m), <<e.id, e.full>> >>,
    <<"C10", "instance-groups-altered", SeqToSet(e.groups) = SeqToSet(m.cfg.groups) /\ Len(e.groups) = Len(m.cfg.groups), <<e.id, e.groups>> >>,
    <<"C15", "fdt-toi-attribute-differs-from-allocated-toi",
        \A i \in 1..Len(e.files) : e.files[i].o # 0, e.id>> >>
  \o FlattenSeq([i \in 1..Len(e.files) |-> FileChecks(m, e.files[i], e, c.t)])

StepFdt(m, e) ==
  IF ~e.ok THEN m ELSE
  LET files == {e.files[i].o : i \in 1..Len(e.files)} \ {0}
      isnew == ~\E i \in 1..Len(m.content) : m.content[i].id = e.id
  IN  [m EXCEPT !.fdtdone = @ \cup {e.id}, !.announced = @ \cup files, !.pending = @ \ {e.id},
                !.content = IF isnew THEN Append(@, [id |-> e.id, c |-> e.c]) ELSE @,
                !.created = SelectSeq(@, LAMBDA c : c.id # e.id),
                !.newestExp = IF isnew THEN e.exp ELSE @]

-----------------------------------------------------------------------------
(* API calls *)

StepAdd(m, e) == IF e.res # "ok" THEN m
                 ELSE [m EXCEPT !.live = @ \cup {e.o}, !.added = Append(@, e.o)]

RECURSIVE StripZ(_)
StripZ(b) == IF b = <<>> THEN <<>> ELSE IF b[1] = 0 THEN StripZ(Tail(b)) ELSE b
\* width of the transfer-length field of EXT_FTI: 40 bits for Raptor / RaptorQ, 48 bits otherwise
WireLenBytes(sc) == IF sc \in {1, 6} THEN 5 ELSE 6
AddChecks(m, e) ==
  IF e.res = "panic" THEN << <<"C14", "sender-panic", FALSE, <<"add", e.o, e.m>> >> >>
  ELSE IF e.res = "err" THEN <<>>
  ELSE << <<"C01", "accepted-an-object-that-the-wire-format-cannot-carry",
              ~Has(e, "Ld") \/ Len(StripZ(e.Ld)) <= WireLenBytes(Obj(m, e.o).scheme), <<e.o, IF Has(e, "Ld") THEN e.Ld ELSE <<>> >> >>,
         \* every source block must be within what the FEC scheme can encode: RFC 5053 4 <= K <= 8192 (the codec in use
         \* also encodes a block of 1 symbol, not of 2 or 3), RFC 6330 K' <= 56403, Reed-Solomon over GF(2^8): at most
         \* 256 symbols (source and parity) per block
         <<"C01", "accepted-an-object-whose-blocks-exceed-the-limit-of-the-fec-scheme",
              LET ob == Obj(m, e.o) IN
              ob.L <= 0 \/ LET al == ALarge(ob.L, ob.E, ob.B) IN
                           CASE ob.scheme = 1 -> al <= 8192 /\ \A b \in 0..(N(ob.L, ob.E, ob.B) - 1) : BlockSyms(ob.L, ob.E, ob.B, b) \notin {2, 3}
                             [] ob.scheme = 6 -> al <= 56403
                             [] ob.scheme \in {5, 129} -> al + ob.par <= 256
                             [] OTHER -> TRUE,
              <<e.o, Obj(m, e.o).scheme, Obj(m, e.o).L, Obj(m, e.o).E, Obj(m, e.o).B>> >>,
         \* every source block needs a number that fits the field of the object's own scheme: SBN of 16 bits (No-Code),
         \* 24 bits (RS GF(2^8)), 32 bits (FEC 129); Z of 16 bits (Raptor) and 8 bits (RaptorQ)
         <<"C01", "accepted-an-object-with-more-blocks-than-its-scheme-can-number",
              LET ob == Obj(m, e.o) IN
              ob.L <= 0 \/ LET nb == N(ob.L, ob.E, ob.B) IN
                           CASE ob.scheme = 0 -> nb <= 65536
                             [] ob.scheme = 1 -> nb <= 65535
                             [] ob.scheme = 6 -> nb <= 255
                             [] ob.scheme = 5 -> nb <= 16777216
                             [] OTHER -> TRUE,
              <<e.o, Obj(m, e.o).scheme, Obj(m, e.o).L, Obj(m, e.o).E, Obj(m, e.o).B>> >>,
         <<"C15", "allocated-toi-is-zero", e.toix # "0", e.o>>,
         <<"C12", "add-after-set-complete-accepted", ~m.complete, e.o>> >>
       \o ProjChecks(StepAdd(m, e), e.st)
PublishChecks(m, e) ==
  IF e.res # "ok" THEN << <<"C10", "publish-failed", FALSE, e.res>> >>
  ELSE << <<"C10", "publish-did-not-take-the-next-instance-id", e.st.fdtid = (m.fdtid + 1) % IdMod, <<m.fdtid, e.st.fdtid>> >> >>
StepPublish(m, e) ==
  IF e.res # "ok" THEN m
  ELSE Create(m, 1, e.t, IF FullMode(m) THEN {m.live} ELSE {m.live \cap m.inx})

StepRemove(m, e) ==
  IF e.res # "true" THEN m
  ELSE [m EXCEPT !.live = @ \ {e.o}, !.removed = @ \cup {e.o},
                 !.stopp[e.o] = Obj(m, e.o).imm \/ m.xn[e.o] >= 1, !.since[e.o] = 0]

RemoveChecks(m, e) ==
  IF e.res = "panic" THEN << <<"C14", "sender-panic", FALSE, <<"remove", e.o>> >> >> ELSE
  << <<"C12", "remove-result-wrong", (e.res = "true") = (e.o \in m.live), <<e.o, e.res, m.live>> >> >>
  \o ProjChecks(StepRemove(m, e), e.st)
TriggerChecks(m, e) ==
  IF e.res = "panic" THEN << <<"C14", "sender-panic", FALSE, <<"trigger", e.o>> >> >> ELSE
  << <<"C12", "trigger-result-wrong", (e.res = "true") = (e.o \in m.live), <<e.o, e.res>> >> >>
  \o (IF Has(e, "st") THEN ProjChecks(m, e.st) ELSE <<>>)      \* a trigger changes neither the objects nor their counters
StepTrigger(m, e) ==
  IF e.res # "true" \/ e.o \in m.inx THEN m
  ELSE [m EXCEPT !.lastEnd[e.o] = -1, !.lastStart[e.o] = -1,
                 !.startT[e.o] = IF e.at >= 0 THEN e.at ELSE @]

CloseChecks(m, e) ==
  IF e.res # "ok" THEN << <<"C14", "sender-panic", FALSE, <<"close">> >> >>
  ELSE << <<"C08", "close-session-packet-without-close-session-flag", e.p.k # "bad" /\ e.p.A, e.p>> >>

-----------------------------------------------------------------------------
Checks(m, e) ==
  CASE e.ev = "read"    -> ReadChecks(m, e)
    [] e.ev = "fdt"     -> FdtChecks(m, e)
    [] e.ev = "add"     -> AddChecks(m, e)
    [] e.ev = "publish" -> PublishChecks(m, e)
    [] e.ev = "remove"  -> RemoveChecks(m, e)
    [] e.ev = "trigger" -> TriggerChecks(m, e)
    [] e.ev = "close"   -> CloseChecks(m, e)
    [] e.ev = "capped"  -> << <<"C12", "reads-at-one-instant-do-not-terminate", FALSE, e.n>> >>
    [] e.ev = "harness_panic" -> << <<"C14", "sender-panic", FALSE, e.m>> >>
    [] OTHER -> <<>>

Step(m, e) ==
  CASE e.ev = "read"     -> IF e.res = "panic" THEN m ELSE StepRead(m, e)
    [] e.ev = "fdt"      -> StepFdt(m, e)
    [] e.ev = "add"      -> StepAdd(m, e)
    [] e.ev = "publish"  -> StepPublish(m, e)
    [] e.ev = "remove"   -> StepRemove(m, e)
    [] e.ev = "trigger"  -> StepTrigger(m, e)
    [] e.ev = "complete" -> [m EXCEPT !.complete = TRUE]
    [] OTHER -> m

Viol(m, e) == SelectSeq(Checks(m, e), LAMBDA c : ~c[3])
=============================================================================
