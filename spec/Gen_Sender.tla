----------------------------- MODULE Gen_Sender -----------------------------
(***************************************************************************)
(* Behaviour generators for the sender-side checks (G1 of DESIGN.md 4.9):  *)
(* TLC enumerates structured spaces of (configuration, object catalogue,   *)
(* operation script) completely and prints each element as one JSON line   *)
(* ("REPLAY"); the harness replays them on the real Sender.                *)
(*                                                                         *)
(*   S1  one object: shape x scheme x parity x interleave x count x        *)
(*       carousel x publish mode x removal at every packet index           *)
(*   S2  every sequence of add/publish/remove/advance/read/drain calls up  *)
(*       to a depth bound over three objects in two priority queues        *)
(*   S3  timing: start time x carousel x pacing target x size x polling    *)
(*       schedule x trigger                                                *)
(*   S4  FDT content: metadata, cache directives, groups, OTI overrides,   *)
(*       instance id wrap, durations, explicit/automatic publication       *)
(*   S5  scheduling workloads: queues x objects x multiplex x interleave   *)
(***************************************************************************)
EXTENDS Partition, FiniteSets, TLC, Json, SequencesExt
CONSTANTS Family, Depth

Oti(s, e, b, p, fti) == [scheme |-> s, E |-> e, B |-> b, par |-> p, fti |-> fti]
NPk(L, E, B, par) == IF L = 0 THEN 1 ELSE T(L, E) + N(L, E, B) * par

BigE == 1024    \* default OTI: the FDT (about 1.5 kB) takes two packets

-----------------------------------------------------------------------------
Shapes == { <<0, 4, 2>>, <<3, 4, 2>>, <<8, 4, 2>>, <<16, 4, 2>>, <<12, 4, 2>>, <<20, 4, 2>>, <<23, 4, 3>>,
            <<16, 4, 5>>, <<17, 4, 5>>, <<36, 4, 5>>, <<33, 4, 5>> }
Schemes == {0, 5, 129, 6, 1}
Cars == { <<"none", 0>>, <<"delay", 1000>>, <<"interval", 500>> }

S1P == Shapes \X Schemes \X {1, 2} \X {1, 2, 3} \X {1, 2} \X Cars \X {"full", "obt"} \X BOOLEAN \X BOOLEAN \X {0, 1}
S1K(p) == 0..(2 + 2 * NPk(p[1][1], p[1][2], p[1][3], 2) + 2)
S1B(p, k) ==
  LET sh == p[1] sc == p[2] pa == p[3] il == p[4] cnt == p[5] car == p[6] md == p[7] imm == p[8] rm == p[9]
      ph == p[10] IN   \* ph = 1: the removal index k counts from the start of the second carousel cycle
    [ fam |-> "S1",
      cfg |-> [scheme |-> 0, E |-> BigE, B |-> 8, interleave |-> il, queues |-> << <<0, 1>> >>, mode |-> md],
      objs |-> << [clen |-> sh[1], oti |-> Oti(sc, sh[2], sh[3], IF sc = 0 THEN 0 ELSE pa, TRUE),
                   count |-> cnt, car |-> car, imm |-> imm] >>,
      ops |-> << <<"add", 1>>, <<"publish">> >>
              \o (IF ph = 1 THEN << <<"drain">>, <<"adv", 1500>> >> ELSE <<>>)
              \o << <<"readn", k>> >>
              \o (IF rm THEN << <<"remove", 1>> >> ELSE <<>>)
              \o << <<"drain">>, <<"adv", 1500>>, <<"drain">>, <<"adv", 1500>>, <<"drain">> >> ]

-----------------------------------------------------------------------------
(* S2: operation sequences, enumerated as a state graph *)
S2Objs == << [clen |-> 12, q |-> 0, oti |-> Oti(0, 4, 2, 0, TRUE)],
             [clen |-> 3,  q |-> 0, oti |-> Oti(0, 4, 2, 0, TRUE), count |-> 2],
             [clen |-> 9,  q |-> 1, oti |-> Oti(5, 4, 3, 1, TRUE), car |-> <<"delay", 500>>] >>
S2Cfgs == { [scheme |-> 0, E |-> BigE, B |-> 8, interleave |-> 2, queues |-> qs, mode |-> md]
            : qs \in { << <<0, 1>>, <<1, 1>> >>, << <<0, 2>>, <<1, 1>> >> }, md \in {"full", "obt"} }
S2Ops == { <<"add", 1>>, <<"add", 2>>, <<"add", 3>>, <<"publish">>, <<"remove", 1>>, <<"remove", 2>>, <<"remove", 3>>,
           <<"adv", 600>>, <<"read">>, <<"readn", 3>>, <<"drain">> }
CountOp(h, name) == Cardinality({i \in 1..Len(h) : h[i][1] = name})
Added(h, o)   == \E i \in 1..Len(h) : h[i] = <<"add", o>>
Removed(h, o) == \E i \in 1..Len(h) : h[i] = <<"remove", o>>
S2Ok(h, op) ==
  /\ (op[1] = "add" => ~Added(h, op[2]))
  /\ (op[1] = "remove" => Added(h, op[2]) /\ ~Removed(h, op[2]))
  /\ (op[1] = "publish" => CountOp(h, "publish") < 2 /\ (h # <<>> /\ h[Len(h)][1] # "publish"))
  /\ (op[1] = "adv" => CountOp(h, "adv") < 2 /\ h # <<>> /\ h[Len(h)][1] # "adv")
  /\ (op[1] \in {"read", "readn", "drain"} => h # <<>> /\ h[Len(h)][1] # "drain")
  /\ (op[1] = "drain" => CountOp(h, "drain") < 2)

-----------------------------------------------------------------------------
(* S3: timing *)
S3Sizes == { <<0, 4, 2>>, <<3, 4, 2>>, <<12, 4, 4>> }
S3Cars == { <<"none", 0>>, <<"delay", 0>>, <<"delay", 3>>, <<"interval", 0>>, <<"interval", 7>> }
Polls == { <<1, 1, 1, 1, 1, 1, 1, 1>>, <<2, 2, 2, 2, 2, 2, 2, 2>>, <<5, 1, 5, 1, 5, 1, 5, 1>>, <<1, 2, 5, 1, 2, 5, 1, 2>>,
           <<3, 3, 3, 3, 3, 3, 3, 3>> }
RECURSIVE PollOps(_, _, _)
PollOps(p, i, trig) ==
  IF i > Len(p) THEN <<>>
  ELSE << <<"drain">> >> \o (IF trig[1] = i THEN << <<"trigger", 1, trig[2]>> >> ELSE <<>>)
       \o << <<"adv", p[i]>> >> \o PollOps(p, i + 1, trig)
S3P == S3Sizes \X {1, 2} \X S3Cars \X {-1, 0, 2, 6, 20} \X {"full", "obt"} \X Polls
       \X { <<0, 0>>, <<2, -1>>, <<3, 12>>, <<5, 0>> }
S3K(p) == 1..8       \* index into the pacing targets
S3TargetSeq(n) == << <<"none", 0>>, <<"asap", 0>>, <<"dur", 0>>, <<"dur", Max2(n, 1)>>, <<"dur", 3 * Max2(n, 1)>>,
                     <<"time", 0>>, <<"time", 2>>, <<"time", 9>> >>
S3B(p, k) ==
  LET sz == p[1] cnt == p[2] car == p[3] st == p[4] md == p[5] pl == p[6] tr == p[7]
      tg == S3TargetSeq(T(sz[1], sz[2]))[k] IN
    [ fam |-> "S3",
      t0 |-> 2,
      cfg |-> [scheme |-> 0, E |-> BigE, B |-> 8, interleave |-> 2, queues |-> << <<0, 2>> >>, mode |-> md,
               fdt_car |-> <<"delay", 100000>>],
      objs |-> << [clen |-> sz[1], oti |-> Oti(0, sz[2], sz[3], 0, TRUE), count |-> cnt, car |-> car,
                   start |-> st, target |-> tg] >>,
      ops |-> << <<"add", 1>>, <<"publish">> >> \o PollOps(pl, 1, tr) \o << <<"drain">> >> ]

\* S3c: pacing of a compressed object: 400 compressible bytes (25 symbols of content, 2 - 4 symbols on the wire): the packets
\* of the transfer, not the symbols of the content, share the target duration
S3cP == {1, 2, 3} \X { <<"dur", 8>>, <<"dur", 30>>, <<"time", 20>> } \X { <<"none", 0>>, <<"delay", 3>> } \X {1, 2} \X {0, 5}
S3cB(p, k) ==
    [ fam |-> "S3c",
      t0 |-> 2,
      cfg |-> [scheme |-> 0, E |-> BigE, B |-> 8, interleave |-> 2, queues |-> << <<0, 2>> >>, mode |-> "full",
               fdt_car |-> <<"delay", 100000>>],
      objs |-> << [clen |-> 400, fill |-> "low", cenc |-> p[1], oti |-> Oti(p[5], 16, 4, IF p[5] = 0 THEN 0 ELSE 1, TRUE), count |-> p[4], car |-> p[3],
                   target |-> p[2]] >>,
      ops |-> << <<"add", 1>>, <<"publish">> >> \o PollOps(<<1, 1, 1, 2, 1, 1, 2, 5, 1, 1, 1, 2, 5, 1, 1, 1, 2, 5, 5, 5>>, 1, <<0, 0>>) \o << <<"drain">> >> ]

-----------------------------------------------------------------------------
(* S4: FDT content *)
Nasty == << "plain", "a\"quote's", "x&y<z>", "]]>", "café-ü", "sp ace; q=\"1\"" >>
S4Objs(v) ==
  << [clen |-> 5, loc |-> "http://example.org/a b?x=1&y=<2>#f", type |-> Nasty[(v % 6) + 1], etag |-> Nasty[((v + 1) % 6) + 1],
      groups |-> IF v % 2 = 0 THEN <<"g1", Nasty[((v + 2) % 6) + 1]>> ELSE <<>>,
      cache |-> IF v % 4 = 0 THEN <<"nocache", 0>> ELSE IF v % 4 = 1 THEN <<"maxstale", 0>>
                ELSE IF v % 4 = 2 THEN <<"expires", 77>> ELSE <<"expiresat", 12345>>,
      cenc |-> v % 4, md5 |-> (v % 3 # 0), car |-> IF v % 3 = 2 THEN <<"none", 0>> ELSE <<"delay", 1>>],
     [clen |-> 9, loc |-> "file:///dir/o2.bin", oti |-> Oti(IF v % 2 = 0 THEN 6 ELSE 5, 4, 2, 1, v % 3 = 0), count |-> 2,
      cache |-> <<"none", 0>>],
     [clen |-> 0, loc |-> "urn:x:y", oti |-> Oti(1, 4, 3, 0, TRUE), car |-> <<"delay", 1>>] >>
S4Scripts ==
  { << <<"add", 1>>, <<"publish">>, <<"drain">>, <<"add", 2>>, <<"publish">>, <<"drain">>, <<"remove", 1>>, <<"publish">>,
       <<"drain">>, <<"complete">>, <<"publish">>, <<"drain">> >>,
    << <<"add", 1>>, <<"add", 2>>, <<"add", 3>>, <<"drain">>, <<"adv", 1>>, <<"drain">>, <<"adv", 2>>, <<"drain">>,
       <<"remove", 3>>, <<"publish">>, <<"drain">>, <<"adv", 1>>, <<"drain">> >>,
    << <<"add", 2>>, <<"publish">>, <<"readn", 1>>, <<"add", 1>>, <<"publish">>, <<"publish">>, <<"drain">>,
       <<"adv", 1>>, <<"drain">>, <<"adv", 1>>, <<"drain">>, <<"adv", 1>>, <<"drain">> >>,
    \* the same objects listed by several instances published at different instants
    << <<"add", 1>>, <<"publish">>, <<"drain">>, <<"adv", 2>>, <<"publish">>, <<"drain">>, <<"adv", 3>>, <<"add", 2>>, <<"publish">>,
       <<"drain">>, <<"adv", 1>>, <<"add", 3>>, <<"publish">>, <<"drain">> >> }
\* polling every second across the expiry of the instance (seconds ticks)
RECURSIVE PollSecs(_)
PollSecs(n) == IF n = 0 THEN <<>> ELSE << <<"adv", 1>>, <<"drain">> >> \o PollSecs(n - 1)
S4ScriptSeq == SetToSeq(S4Scripts)
S4P == {0, 5, 6} \X {"full", "obt"} \X {0, 1, 1048574, 1048575} \X {2, 10, 11, 31, 3600, 259200} \X {0, 3} \X (0..11)
S4K(p) == 1..Len(S4ScriptSeq)
S4B(p, k) ==
  LET ds == p[1] md == p[2] fs == p[3] du == p[4] fc == p[5] v == p[6] IN
    [ fam |-> "S4",
      cfg |-> [scheme |-> ds, E |-> BigE, B |-> 8, par |-> IF ds = 0 THEN 0 ELSE 1, interleave |-> 2, queues |-> << <<0, 2>> >>,
               mode |-> md, fdt_start |-> fs, fdt_dur |-> du, tick_us |-> 1000000, fdt_cenc |-> fc,
               groups |-> IF v % 2 = 1 THEN <<"ig", Nasty[(v % 6) + 1]>> ELSE <<>>, sct |-> (v % 2 = 0),
               fdt_car |-> <<"delay", 1>>],
      objs |-> S4Objs(v), ops |-> S4ScriptSeq[k] ]
\* ... x repetition period of the FDT carousel (the renewal before expiry must not wait for the next repetition)
S4xP == {"full", "obt"} \X {2, 5, 10, 11, 12, 30, 31, 35} \X {1, 4, 15}
S4xB(p, k) ==
    [ fam |-> "S4x",
      cfg |-> [scheme |-> 0, E |-> BigE, B |-> 8, interleave |-> 2, queues |-> << <<0, 2>> >>, mode |-> p[1],
               fdt_start |-> 1048575, fdt_dur |-> p[2], tick_us |-> 1000000, fdt_car |-> <<"delay", p[3]>>],
      objs |-> << [clen |-> 5, car |-> <<"delay", 1>>, oti |-> Oti(0, 4, 2, 0, TRUE)] >>,
      ops |-> << <<"add", 1>>, <<"publish">>, <<"drain">> >> \o PollSecs(p[2] + 8) ]

-----------------------------------------------------------------------------
(* S5: scheduling workloads *)
S5Sizes == { <<0, 4, 2>>, <<3, 4, 2>>, <<20, 4, 2>> }
S5P == {1, 2, 3} \X { <<0, 1>>, <<1, 2>>, <<2, 0>>, <<2, 2>>, <<3, 1>> } \X {"full", "obt"}
       \X S5Sizes \X S5Sizes \X S5Sizes
       \X { <<0, 0, 0>>, <<0, 3, 0>>, <<3, 0, 3>>, <<3, 3, 0>>, <<0, 0, 3>> }
S5K(p) == {0, 1, 3, 4, 7}
S5B(p, late) ==
  LET il == p[1] mx == p[2] md == p[3] s1 == p[4] s2 == p[5] s3 == p[6] qa == p[7] IN
    [ fam |-> "S5",
      cfg |-> [scheme |-> 0, E |-> BigE, B |-> 8, interleave |-> il, queues |-> << <<0, mx[1]>>, <<3, mx[2]>> >>, mode |-> md],
      objs |-> << [clen |-> s1[1], q |-> qa[1], oti |-> Oti(0, 4, 2, 0, TRUE)],
                  [clen |-> s2[1], q |-> qa[2], oti |-> Oti(5, 4, 2, 1, TRUE)],
                  [clen |-> s3[1], q |-> qa[3], oti |-> Oti(0, 4, 2, 0, FALSE), count |-> 2] >>,
      ops |-> (IF late = 0 THEN << <<"add", 1>>, <<"add", 2>>, <<"add", 3>>, <<"publish">>, <<"drain">> >>
               ELSE << <<"add", 1>>, <<"add", 2>>, <<"publish">>, <<"readn", late>>, <<"add", 3>>, <<"publish">>, <<"drain">> >>) ]

-----------------------------------------------------------------------------
(* S7: object sources (C20): every composition of the object length into read sizes *)
RECURSIVE Chunks(_, _, _, _)
\* cut[i] = TRUE: a read ends after byte i
Chunks(cut, i, acc, L) == IF i > L THEN <<>>
                          ELSE IF i = L \/ cut[i] THEN <<acc + 1>> \o Chunks(cut, i + 1, 0, L) ELSE Chunks(cut, i + 1, acc + 1, L)
S7P == (1..8) \X {1, 2} \X {1, 2} \X {1, 2} \X { <<"none", 0>>, <<"delay", 100>> } \X {0, 5} \X BOOLEAN    \* ... x Content-MD5 computed
S7K(p) == [1..(p[1] - 1) -> BOOLEAN]
S7B(p, cut) ==
  LET L == p[1] E == p[2] B == p[3] cnt == p[4] car == p[5] sc == p[6] IN
    [ fam |-> "S7",
      cfg |-> [scheme |-> 0, E |-> BigE, B |-> 8, interleave |-> 2, queues |-> << <<0, 1>> >>, sct |-> FALSE],
      objs |-> << [clen |-> L, oti |-> Oti(sc, E, B, IF sc = 0 THEN 0 ELSE 1, TRUE), count |-> cnt, car |-> car, md5 |-> p[7],
                   chunks |-> Chunks(cut, 1, 0, L)] >>,
      srcs |-> <<"buffer", "stream">>,
      ops |-> << <<"add", 1>>, <<"publish">>, <<"drain">>, <<"adv", 1500>>, <<"drain">>, <<"adv", 1500>>, <<"drain">> >> ]
\* larger objects through a file, a BufReader with a tiny buffer, fixed small chunks and one byte at a time
S7bP == {100, 257, 1000} \X {7, 16} \X {3, 8} \X {0, 5, 6} \X {1, 2} \X BOOLEAN \X {0, 3}    \* ... x Content-MD5 x content encoding
S7bB(p, k) ==
    [ fam |-> "S7b",
      cfg |-> [scheme |-> 0, E |-> BigE, B |-> 8, interleave |-> 2, queues |-> << <<0, 1>> >>, sct |-> FALSE],
      objs |-> << [clen |-> p[1], oti |-> Oti(p[4], p[2], p[3], IF p[4] = 0 THEN 0 ELSE 2, TRUE), count |-> p[5], md5 |-> p[6], cenc |-> p[7],
                   car |-> <<"delay", 100>>, chunks |-> <<k>>, bufcap |-> 5] >>,
      srcs |-> <<"buffer", "stream", "file", "bufreader">>,
      ops |-> << <<"add", 1>>, <<"publish">>, <<"drain">>, <<"adv", 1500>>, <<"drain">> >> ]

-----------------------------------------------------------------------------
(* S6: transfer lengths at and around what the wire format can carry (a seekable fake stream of that length) *)
S6Lens == << "ffffffffff", "10000000000", "10000000001", "ffffffffffff", "1000000000000", "ffffffff", "100000000" >>
S6P == Schemes \X (1..Len(S6Lens)) \X BOOLEAN
\* symbol size and block length chosen so that the number of blocks never limits the object before the width of the
\* transfer-length field does; packets are only read when a block is small enough to be read from the fake stream
S6EB(sc) == CASE sc = 129 -> <<1024, 64>> [] sc = 1 -> <<65535, 257>> [] sc = 5 -> <<65535, 255>> [] OTHER -> <<65535, 65535>>
S6B(p, k) ==
    [ fam |-> "S6",
      cfg |-> [scheme |-> 0, E |-> BigE, B |-> 8, interleave |-> 1, queues |-> << <<0, 1>> >>],
      objs |-> << [clen |-> 16, src |-> "stream", fake_len_hex |-> S6Lens[p[2]], md5 |-> FALSE,
                   oti |-> Oti(p[1], S6EB(p[1])[1], S6EB(p[1])[2], IF p[1] = 0 THEN 0 ELSE 1, p[3])] >>,
      ops |-> << <<"add", 1>>, <<"publish">> >> \o (IF p[1] \in {129, 1} THEN << <<"readn", 3>> >> ELSE <<>>) ]

\* S6b: the number of source blocks against the width of the SBN / Z field of the object's OWN scheme (the session OTI is
\* much larger): symbols and blocks of one byte, lengths around the limit, from a stream that pretends to be that long
S6bCases == << <<0, "ffff">>, <<0, "10000">>, <<0, "10001">>, <<0, "11170">>, <<1, "ffff">>, <<1, "10000">>, <<1, "10001">>,
               <<6, "ff">>, <<6, "100">>, <<6, "101">>, <<5, "ffffff">>, <<5, "1000000">>, <<5, "1000001">> >>
S6bP == (1..Len(S6bCases)) \X BOOLEAN
S6bB(p, k) ==
    LET sc == S6bCases[p[1]][1] IN
    [ fam |-> "S6b",
      cfg |-> [scheme |-> 0, E |-> BigE, B |-> 64, interleave |-> 1, queues |-> << <<0, 1>> >>],
      objs |-> << [clen |-> 16, src |-> "stream", fake_len_hex |-> S6bCases[p[1]][2], md5 |-> FALSE,
                   oti |-> Oti(sc, 1, 1, IF sc = 0 THEN 0 ELSE 1, p[2])] >>,
      ops |-> << <<"add", 1>>, <<"publish">> >> ]

\* S8: the limits of the codecs: a Raptor block has at most 8192 source symbols (RFC 5053), a RaptorQ block at most
\* 56403 (RFC 6330), a Reed-Solomon GF(2^8) block at most 255 encoding symbols (RFC 5510); one symbol below, at and
\* above each limit, one and two blocks
S8Cases == << <<1, 8191>>, <<1, 8192>>, <<1, 8193>>, <<1, 65535>>, <<6, 56402>>, <<6, 56403>>, <<6, 56404>>, <<6, 65535>>,
              <<5, 254>>, <<5, 255>>, <<129, 254>>, <<129, 255>>, <<129, 256>>, <<129, 65535>>, <<0, 65535>> >>
S8P == (1..Len(S8Cases)) \X {1, 2} \X {0, 1} \X BOOLEAN
S8B(p, k) ==
    LET sc == S8Cases[p[1]][1]  B == S8Cases[p[1]][2]  par == IF sc = 0 THEN 0 ELSE 1 IN
    [ fam |-> "S8",
      cfg |-> [scheme |-> 0, E |-> BigE, B |-> 8, interleave |-> 1, queues |-> << <<0, 1>> >>],
      \* p[2] blocks of B symbols of 1 byte, minus p[3] bytes
      objs |-> << [clen |-> B * p[2] - p[3], md5 |-> FALSE, oti |-> Oti(sc, 1, B, par, p[4])] >>,
      \* encoding a RaptorQ block of 56403 symbols takes minutes: such objects are only added
      ops |-> << <<"add", 1>>, <<"publish">> >> \o (IF sc = 6 THEN <<>> ELSE << <<"readn", 4>> >>) ]

\* S10: every partition shape: T = 1..14 source symbols, B = 1..5, last symbol full or one byte short, from a buffer and
\* from a stream: the blocks the sender really cuts (SBN, ESI, source block length, byte offsets) against RFC 5052
S10P == (1..14) \X (1..5) \X {0, 1} \X {0, 129, 5} \X {"buffer", "stream"}
S10B(p, k) ==
    [ fam |-> "S10",
      cfg |-> [scheme |-> 0, E |-> BigE, B |-> 8, interleave |-> 2, queues |-> << <<0, 1>> >>],
      \* (the stream returns 3 bytes per read: a block is filled by several short reads)
      objs |-> << [clen |-> p[1] * 4 - p[3], src |-> p[5], chunks |-> <<3>>, oti |-> Oti(p[4], 4, p[2], IF p[4] = 0 THEN 0 ELSE 1, TRUE)] >>,
      ops |-> << <<"add", 1>>, <<"publish">>, <<"drain">> >> ]

\* S9: trigger_transfer_at under contention: three objects with several transfers each share one queue with fewer slots,
\* so that an object is idle BETWEEN two of its own transfers; the trigger hits object p[4] after k reads
S9P == {1, 2} \X {2, 3} \X { <<"none", 0>>, <<"delay", 2>> } \X {1, 2} \X {-1, 0}
S9K(p) == 0..18
S9B(p, k) ==
    [ fam |-> "S9",
      cfg |-> [scheme |-> 0, E |-> BigE, B |-> 8, interleave |-> 1, queues |-> << <<0, p[1]>> >>, mode |-> "full"],
      objs |-> << [clen |-> 8, oti |-> Oti(0, 4, 2, 0, TRUE), count |-> p[2], car |-> p[3]],
                  [clen |-> 8, oti |-> Oti(0, 4, 2, 0, TRUE), count |-> 2],
                  [clen |-> 4, oti |-> Oti(0, 4, 2, 0, TRUE), count |-> 1] >>,
      ops |-> << <<"add", 1>>, <<"add", 2>>, <<"add", 3>>, <<"publish">> >>
              \o (IF k > 0 THEN << <<"readn", k>> >> ELSE <<>>)
              \o << <<"trigger", p[4], p[5]>>, <<"drain">>, <<"adv", 3>>, <<"drain">>, <<"adv", 3>>, <<"drain">> >> ]

-----------------------------------------------------------------------------
(* The parameter spaces are cartesian products (enumerated lazily by TLC, no set of big records is   *)
(* ever built); the dependent parameter k is a second variable.                                      *)
Params == CASE Family = "S1" -> S1P [] Family = "S3" -> S3P [] Family = "S4" -> S4P [] Family = "S4x" -> S4xP
            [] Family = "S5" -> S5P [] Family = "S2" -> S2Cfgs [] Family = "S7" -> S7P [] Family = "S7b" -> S7bP [] Family = "S6" -> S6P [] Family = "S6b" -> S6bP [] Family = "S8" -> S8P [] Family = "S9" -> S9P [] Family = "S10" -> S10P [] Family = "S3c" -> S3cP [] OTHER -> {}
KRange(p) == CASE Family = "S1" -> S1K(p) [] Family = "S3" -> S3K(p) [] Family = "S4" -> S4K(p)
               [] Family = "S5" -> S5K(p) [] Family = "S9" -> S9K(p) [] Family = "S7" -> S7K(p) [] Family = "S7b" -> {1, 3, 1000} [] OTHER -> {0}
Build(p, k) == CASE Family = "S1" -> S1B(p, k) [] Family = "S3" -> S3B(p, k) [] Family = "S4" -> S4B(p, k)
                 [] Family = "S4x" -> S4xB(p, k) [] Family = "S5" -> S5B(p, k) [] Family = "S7" -> S7B(p, k)
                 [] Family = "S7b" -> S7bB(p, k) [] Family = "S6" -> S6B(p, k) [] Family = "S6b" -> S6bB(p, k) [] Family = "S8" -> S8B(p, k) [] Family = "S9" -> S9B(p, k) [] Family = "S10" -> S10B(p, k) [] Family = "S3c" -> S3cB(p, k)

VARIABLES b, k, h
Init == b \in Params /\ k \in KRange(b) /\ h = <<>>
Next == /\ Family = "S2" /\ Len(h) < Depth
        /\ \E op \in S2Ops : S2Ok(h, op) /\ h' = Append(h, op)
        /\ UNCHANGED <<b, k>>
Spec == Init /\ [][Next]_<<b, k, h>>

\* printing (one line per behaviour)
S2Done == Len(h) >= 2 /\ h[Len(h)][1] \in {"drain", "readn"}
Emit == IF Family = "S2"
        THEN (S2Done => PrintT(<<"REPLAY", ToJson([fam |-> "S2", cfg |-> b, objs |-> S2Objs,
                                                   ops |-> h \o << <<"drain">>, <<"adv", 600>>, <<"drain">> >>])>>))
        ELSE PrintT(<<"REPLAY", ToJson(Build(b, k))>>)
=============================================================================
