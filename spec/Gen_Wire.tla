------------------------------ MODULE Gen_Wire ------------------------------
(***************************************************************************)
(* Generators of the C06 check.                                            *)
(* Mode "enc": field values (every combination of CCI x TSI x TOI width    *)
(*   class and close-object flag, each with boundary values, crossed with  *)
(*   R rotations through FEC OTI boundary values, extension sets, SCT      *)
(*   instants and payload ids) that flute's packet builder must encode.    *)
(* Mode "dec": packets built by Wire.tla itself - every (C, S, O, H) width *)
(*   combination including non-minimal widths, unknown fixed and variable  *)
(*   length extensions (HEL up to 255) before/after the known ones - that  *)
(*   flute's parser must decode to the same values.                        *)
(***************************************************************************)
EXTENDS Wire, TLC, Json
CONSTANTS Mode, R

Ones(n) == [i \in 1..n |-> 255]
Pow(k, n) == Zeros(n - k - 1) \o <<1>> \o Zeros(k)       \* 256^k as n bytes
\* boundary values of an n-byte field for every width class of w bytes: 256^w - 1 and 256^w
RECURSIVE Bounds(_, _, _)
Bounds(n, w, step) == IF w > n THEN <<>> ELSE (<<Zeros(n - w) \o Ones(w)>> \o (IF w < n THEN <<Pow(w, n)>> ELSE <<>>)) \o Bounds(n, w + step, step)
CciVals == <<Zeros(16), Fit(<<1>>, 16)>> \o Bounds(16, 4, 4)
TsiVals == <<Zeros(6), Fit(<<1>>, 6)>> \o Bounds(6, 2, 2)
ToiVals == <<Zeros(14), Fit(<<1>>, 14)>> \o Bounds(14, 2, 2)

L48 == << Zeros(6), Fit(<<1>>, 6), Fit(<<1, 0, 0, 0, 0>>, 6), Ones(6) >>
L40 == << Zeros(6), Fit(<<1>>, 6), Fit(<<1, 0, 0, 0>>, 6), Fit(Ones(5), 6) >>
Otis == <<
  [scheme |-> 0, E |-> 1, B |-> 1, par |-> 0], [scheme |-> 0, E |-> 65535, B |-> 65535, par |-> 0], [scheme |-> 0, E |-> 1400, B |-> 64, par |-> 0],
  [scheme |-> 5, E |-> 1, B |-> 1, par |-> 0], [scheme |-> 5, E |-> 65535, B |-> 255, par |-> 0], [scheme |-> 5, E |-> 1024, B |-> 200, par |-> 55], [scheme |-> 5, E |-> 4, B |-> 1, par |-> 254],
  [scheme |-> 129, E |-> 1, B |-> 1, par |-> 0, inst |-> 0], [scheme |-> 129, E |-> 65535, B |-> 65535, par |-> 0, inst |-> 65535], [scheme |-> 129, E |-> 16, B |-> 256, par |-> 65279, inst |-> 1],
  [scheme |-> 6, E |-> 4, B |-> 10, par |-> 0, Z |-> 1, N |-> 1, Al |-> 4], [scheme |-> 6, E |-> 65532, B |-> 10, par |-> 0, Z |-> 255, N |-> 65535, Al |-> 4], [scheme |-> 6, E |-> 255, B |-> 10, par |-> 0, Z |-> 7, N |-> 256, Al |-> 255],
  [scheme |-> 1, E |-> 4, B |-> 10, par |-> 0, Z |-> 1, N |-> 1, Al |-> 4], [scheme |-> 1, E |-> 65535, B |-> 10, par |-> 0, Z |-> 65535, N |-> 255, Al |-> 1], [scheme |-> 1, E |-> 8, B |-> 10, par |-> 0, Z |-> 256, N |-> 2, Al |-> 8],
  [scheme |-> 2, E |-> 1, B |-> 1, par |-> 0, m |-> 8, g |-> 1], [scheme |-> 2, E |-> 65535, B |-> 255, par |-> 0, m |-> 8, g |-> 255], [scheme |-> 2, E |-> 64, B |-> 10, par |-> 5, m |-> 4, g |-> 2] >>
\* SCT instants: UNIX seconds (4 bytes) and microseconds; the last one is the end of NTP era 0
Scts == << [secs |-> Zeros(4), us |-> 0], [secs |-> Zeros(4), us |-> 1], [secs |-> <<103, 116, 133, 128>>, us |-> 999999],
           [secs |-> <<103, 116, 133, 129>>, us |-> 500000], [secs |-> <<103, 116, 133, 130>>, us |-> 123456],
           [secs |-> <<124, 85, 129, 127>>, us |-> 999999], [secs |-> <<124, 85, 129, 126>>, us |-> 7] >>
MaxSbn(sc) == CASE sc \in {0, 1} -> 65535 [] sc = 5 -> 16777215 [] sc = 6 -> 255 [] sc = 129 -> 65535 [] sc = 2 -> 8388607
MaxEsi(sc) == CASE sc \in {0, 1, 129} -> 65535 [] sc = 5 -> 255 [] sc = 6 -> 16777215 [] sc = 2 -> 255

EncB(ci, ti, oi, b, r) ==
  LET x   == ci * 7 + ti * 13 + oi * 3 + r * 5 + (IF b THEN 1 ELSE 0)
      oti == Otis[(x % Len(Otis)) + 1]
      sc  == oti.scheme
      toi == ToiVals[oi]
      fdt == toi = Zeros(14)
      Ls  == IF sc \in {1, 6} THEN L40 ELSE L48
      sctk == (x \div 3) % (Len(Scts) + 2)
      sb  == (x \div 5) % 3
      es  == (x \div 7) % 3
  IN [ cci |-> CciVals[ci], tsi |-> TsiVals[ti], toi |-> toi, b |-> b,
       oti |-> oti @@ [fti |-> (x % 2 = 0)],
       L |-> Ls[((x \div 2) % Len(Ls)) + 1],
       fdt |-> IF fdt THEN << 1 + (x % 2), IF x % 3 = 0 THEN 0 ELSE IF x % 3 = 1 THEN 1048575 ELSE 4660 >> ELSE <<>>,
       cenc |-> x % 4, icenc |-> ((x \div 4) % 2 = 0),
       sct |-> IF sctk < Len(Scts) THEN Scts[sctk + 1] ELSE [none |-> TRUE],
       sbn |-> IF sc = 129 THEN (IF sb = 0 THEN Zeros(4) ELSE IF sb = 1 THEN Ones(4) ELSE <<1, 2, 3, 4>>)
               ELSE FromNat(IF sb = 0 THEN 0 ELSE IF sb = 1 THEN MaxSbn(sc) ELSE 1, 4),
       esi |-> IF es = 0 THEN 0 ELSE IF es = 1 THEN (IF sc = 2 THEN (2 ^ oti.m) - 1 ELSE MaxEsi(sc)) ELSE 1,
       sbl |-> IF sc = 129 THEN (IF es = 0 THEN 0 ELSE IF es = 1 THEN 65535 ELSE oti.B) ELSE 0,
       paylen |-> (x % 3) * 3 ]

-----------------------------------------------------------------------------
(* packets built by the specification *)
UnkFixed  == [het |-> 200, body |-> <<1, 2, 3>>]
UnkVar(hel) == [het |-> 9, body |-> [i \in 1..(4 * hel - 2) |-> (i * 7) % 256]]
Val(n, cls) == IF n = 0 THEN <<>> ELSE IF cls = 0 THEN Zeros(n) ELSE IF cls = 1 THEN Ones(n) ELSE [i \in 1..n |-> (17 * i) % 256]
KnownFti(cp, x) ==
  CASE cp = 0   -> FtiNoCode(L48[(x % 4) + 1], 1400, <<0, 0, 0, 64>>)
    [] cp = 129 -> FtiSmallBlock(L48[(x % 4) + 1], 3, 1400, 64, 80)
    [] cp = 5   -> FtiRS28(L48[(x % 4) + 1], 1400, 64, 80)
    [] cp = 2   -> FtiRS2m(L48[(x % 4) + 1], 8, 1, 1400, 64, 80)
    [] cp = 6   -> FtiRaptorQ(L40[(x % 4) + 1], 1400, 1 + (x % 255), 1 + x, 4)
    [] cp = 1   -> FtiRaptor(L40[(x % 4) + 1], 1400, 1 + x, 1 + (x % 255), 4)
Cps == <<0, 1, 2, 5, 6, 129>>
DecB(c, s, o, h, cls, lay, r) ==
  LET x   == c * 5 + s * 11 + o * 3 + h * 7 + cls * 13 + lay * 17 + r * 19
      cp  == Cps[(x % 6) + 1]
      toi == IF (x \div 2) % 4 = 0 THEN Zeros(4 * o + 2 * h) ELSE Val(4 * o + 2 * h, cls)
      isfdt == Strip(toi) = <<>>
      sct == Scts[((x \div 3) % Len(Scts)) + 1]
      known == (IF isfdt THEN <<ExtFdt(1 + (x % 2), (x * 4099) % 1048576)>> ELSE <<>>)
               \o (IF x % 2 = 0 THEN <<ExtCenc((x \div 2) % 4)>> ELSE <<>>)
               \o (IF x % 3 # 0 THEN <<ExtTime(NtpSeconds(sct.secs), FromNat((x * 65521) % 2147483647, 4))>> ELSE <<>>)
               \o (IF x % 5 # 0 \/ isfdt THEN <<KnownFti(cp, x)>> ELSE <<>>)
      exts == CASE lay = 0 -> known
                [] lay = 1 -> <<UnkFixed>> \o known
                [] lay = 2 -> <<UnkVar(1)>> \o known
                [] lay = 3 -> known \o <<UnkVar(64)>>
                [] lay = 4 -> <<UnkVar(70)>> \o known \o <<UnkFixed>>
                [] lay = 5 -> <<UnkVar(64), UnkFixed>> \o known \o <<UnkVar(3)>>
      f == [c |-> c, psi |-> 0, s |-> s, o |-> o, h |-> h, a |-> (x \div 7) % 2, b |-> (x \div 11) % 2, cp |-> cp,
            cci |-> Val(4 * (c + 1), (cls + 1) % 3), tsi |-> Val(4 * s + 2 * h, cls), toi |-> toi, exts |-> exts,
            pid |-> IF cp = 129 THEN Val(4, cls) \o FromNat(x % 65536, 2) \o FromNat((x * 31) % 65536, 2)
                    ELSE [i \in 1..4 |-> (x * i * 37) % 256],
            payload |-> [i \in 1..(x % 4) |-> 90]]
  IN  [ id |-> x, m |-> 8, bytes |-> EncAlc(f), hdrwords |-> HdrWords(f),
        oti |-> [scheme |-> cp, E |-> 1400, B |-> 64, par |-> 16, m |-> 8, g |-> 1, Z |-> 1, N |-> 1, Al |-> 4, inst |-> 3] ]

VARIABLES p, r
Init == /\ r \in 0..(R - 1)
        /\ IF Mode = "enc" THEN p \in (1..Len(CciVals)) \X (1..Len(TsiVals)) \X (1..Len(ToiVals)) \X BOOLEAN
           ELSE p \in (0..3) \X (0..1) \X (0..3) \X (0..1) \X (0..2) \X (0..5)
Next == UNCHANGED <<p, r>>
Spec == Init /\ [][Next]_<<p, r>>
Emit == IF Mode = "enc" THEN PrintT(<<"REPLAY", ToJson(EncB(p[1], p[2], p[3], p[4], r))>>)
        ELSE LET d == DecB(p[1], p[2], p[3], p[4], p[5], p[6], r) IN
             d.hdrwords > 255 \/ PrintT(<<"REPLAY", ToJson(d)>>)
=============================================================================
