------------------------------- MODULE Mon_Multi -------------------------------
(* C18 monitor over recorded MultiReceiver traces with several streams          *)
(* (session x endpoint): TSI filter decision, listener open/close discipline,   *)
(* callbacks tagged with the session's own endpoint and TSI, and per-session    *)
(* delivery unaffected by interleaving.  The filter decision is recomputed from *)
(* the history of listen calls alone (AcceptedByHistory of MultiRecv.tla).      *)
EXTENDS ReceiverProps, IOUtils
Rec == ndJsonDeserialize(IOEnv.TRACE)
VARIABLES l, m, SS
Init == l = 1 /\ m = [beh |-> -1] /\ SS = <<>>

NoSrc(ep) == (ep \div 10) * 10
Cnt(f, k) == IF k \in DOMAIN f THEN f[k] ELSE 0
Bump(f, k, d) == [x \in DOMAIN f \cup {k} |-> IF x = k THEN (IF Cnt(f, k) + d < 0 THEN 0 ELSE Cnt(f, k) + d) ELSE f[x]]
Listened(mm, ep, t) == \/ ~mm.filtering \/ Cnt(mm.all, ep) > 0
                       \/ Cnt(mm.adds, <<ep, t>>) > 0 \/ Cnt(mm.adds, <<NoSrc(ep), t>>) > 0

NewMulti(e) == [beh |-> e.beh, fam |-> e.fam, rcfg |-> e.rcfg, streams |-> e.streams, filtering |-> e.rcfg.filtering,
                adds |-> <<>>, all |-> <<>>, open |-> {}, W |-> <<>>, npushed |-> [s \in 1..Len(e.streams) |-> 0],
                inorder |-> TRUE, slept |-> FALSE, dead |-> FALSE, skipped |-> FALSE]

\* listener and writer callbacks of one call, folded in order
RECURSIVE Fold(_, _, _, _)
Fold(mm, cbs, key, acc) ==
  IF cbs = <<>> THEN <<mm, acc>> ELSE
  LET cb == Head(cbs) IN
  IF cb.k = "sopen" THEN
     Fold([mm EXCEPT !.open = @ \cup {<<cb.ep, cb.tsi>>}], Tail(cbs), key,
          acc \o << <<"C18", "session-opened-twice-without-close", <<cb.ep, cb.tsi>> \notin mm.open, <<cb.ep, cb.tsi>> >> >>)
  ELSE IF cb.k = "sclosed" THEN
     Fold([mm EXCEPT !.open = @ \ {<<cb.ep, cb.tsi>>}], Tail(cbs), key,
          acc \o << <<"C18", "session-closed-without-open", <<cb.ep, cb.tsi>> \in mm.open, <<cb.ep, cb.tsi>> >> >>)
  ELSE IF cb.k = "new" THEN
     Fold([mm EXCEPT !.W = [x \in DOMAIN @ \cup {cb.w} |-> IF x = cb.w THEN [key |-> <<cb.ep, cb.tsi>>, o |-> cb.o, exact |-> FALSE, done |-> FALSE] ELSE @[x]]],
          Tail(cbs), key,
          acc \o << <<"C18", "writer-callback-carries-wrong-endpoint-or-tsi", key = <<0, 0>> \/ <<cb.ep, cb.tsi>> = key, <<cb.ep, cb.tsi, key>> >> >>)
  ELSE IF cb.k = "complete" /\ cb.w \in DOMAIN mm.W THEN
     Fold([mm EXCEPT !.W[cb.w].done = TRUE, !.W[cb.w].exact = cb.dg], Tail(cbs), key, acc)
  ELSE Fold(mm, Tail(cbs), key, acc)

StreamIdx(mm, e) == CHOOSE s \in 1..Len(mm.streams) : mm.streams[s][1] = e.sid /\ mm.streams[s][2] = e.ep

Judge(mm, e) ==
  IF e.ev = "listen" THEN <<>>
  ELSE IF e.ev = "push" THEN
    LET S == SS[e.sid] t == S.cfg.tsi key == <<e.ep, t>>
        acc == Listened(mm, e.ep, t)
        r == Fold(mm, e.cb, key, <<>>)
        opened == \E j \in 1..Len(e.cb) : e.cb[j].k = "sopen" /\ e.cb[j].ep = e.ep /\ e.cb[j].tsi = t
        closed == \E j \in 1..Len(e.cb) : e.cb[j].k = "sclosed" /\ e.cb[j].ep = e.ep /\ e.cb[j].tsi = t
        pk == Pk(S, e.i)
    IN  << <<"C04", "receiver-call-did-not-return-ok-or-err", e.res \in {"ok", "err"}, e.res>>,
           <<"C18", "packet-processed-although-not-listened-to", acc \/ Len(e.cb) = 0, <<key, e.cb>> >>,
           <<"C18", "packet-of-listened-session-not-processed",
               IF acc /\ key \notin mm.open /\ ~pk.A THEN opened ELSE TRUE, <<key, mm.filtering, mm.adds, mm.all>> >>,
           <<"C18", "session-not-closed-by-close-session-packet",
               IF acc /\ pk.A /\ key \in mm.open THEN closed ELSE TRUE, key>> >>
        \o r[2]
  ELSE IF e.ev = "cleanup" THEN
    LET r == Fold(mm, e.cb, <<0, 0>>, <<>>) IN
    << <<"C18", "idle-session-not-closed-at-cleanup-after-timeout",
          IF mm.rcfg.sess_to = 0 /\ mm.slept THEN r[1].open = {} ELSE TRUE, r[1].open>> >> \o r[2]
  ELSE IF e.ev = "drop" THEN
    LET r == Fold(mm, e.cb, <<0, 0>>, <<>>) IN
    << <<"C18", "session-not-closed-at-drop", r[1].open = {}, r[1].open>> >> \o r[2]
  ELSE IF e.ev = "end" /\ mm.fam = "inter" /\ ~mm.dead THEN
    \* interleaving does not change what each session delivers: every object of every stream exactly once
    << <<"C18", "interleaving-changed-what-a-session-delivers",
          \A s \in 1..Len(mm.streams) :
             LET S == SS[mm.streams[s][1]] key == <<mm.streams[s][2], S.cfg.tsi>> IN
             \A o \in SeqToSet(S.accepted) :
                Cardinality({w \in DOMAIN mm.W : mm.W[w].key = key /\ mm.W[w].o = o /\ mm.W[w].done /\ mm.W[w].exact = SObj(S, o).digest}) = 1
                /\ Cardinality({w \in DOMAIN mm.W : mm.W[w].key = key /\ mm.W[w].o = o}) = 1,
          [w \in DOMAIN mm.W |-> <<mm.W[w].key, mm.W[w].o, mm.W[w].done>>]>> >>
  ELSE <<>>

Advance(mm, e) ==
  IF e.ev = "listen" THEN
     IF e.op = "add" THEN [mm EXCEPT !.adds = Bump(@, <<e.ep, e.tsi>>, 1)]
     ELSE IF e.op = "remove" THEN [mm EXCEPT !.adds = Bump(@, <<e.ep, e.tsi>>, 0 - 1)]
     ELSE IF e.op = "addall" THEN [mm EXCEPT !.all = Bump(@, e.ep, 1)]
     ELSE IF e.op = "removeall" THEN [mm EXCEPT !.all = Bump(@, e.ep, 0 - 1)]
     ELSE IF e.op = "filter_on" THEN [mm EXCEPT !.filtering = TRUE]
     ELSE IF e.op = "filter_off" THEN [mm EXCEPT !.filtering = FALSE]
     ELSE mm
  ELSE IF e.ev = "push" THEN
     [Fold(mm, e.cb, <<e.ep, SS[e.sid].cfg.tsi>>, <<>>)[1] EXCEPT !.dead = e.res = "panic", !.slept = FALSE]
  ELSE IF e.ev \in {"cleanup", "drop"} THEN [Fold(mm, e.cb, <<0, 0>>, <<>>)[1] EXCEPT !.slept = FALSE]
  ELSE IF e.ev = "sleep" THEN [mm EXCEPT !.slept = e.ms >= 3]
  ELSE mm

Next == /\ l <= Len(Rec)
        /\ LET e == Rec[l] IN
           IF e.ev = "session"
           THEN /\ SS' = [x \in DOMAIN SS \cup {e.sid} |-> IF x = e.sid THEN e ELSE SS[x]] /\ m' = m
           ELSE /\ SS' = SS
                /\ IF e.ev = "reset" THEN m' = IF Has(e, "skip") THEN [beh |-> -1] ELSE NewMulti(e)
                   ELSE IF m.beh = -1 THEN m' = m
                   ELSE /\ LET v == SelectSeq(Judge(m, e), LAMBDA c : ~c[3]) IN
                           \A i \in 1..Len(v) : Report(v[i][1], v[i][2], m.beh, l, v[i][4])
                        /\ m' = Advance(m, e)
        /\ l' = l + 1
Spec == Init /\ [][Next]_<<l, m, SS>>
AllConsumed == IF TLCGet("stats").diameter = Len(Rec) + 1 THEN TRUE
               ELSE PrintT(<<"UNCONSUMED", TLCGet("stats").diameter, Len(Rec)>>) /\ FALSE
=============================================================================
