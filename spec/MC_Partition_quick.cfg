SPECIFICATION Spec
CONSTANTS BMax = 16 EMax = 8 LMax = 300
INVARIANT Theorems RleOk
CHECK_DEADLOCK FALSE
