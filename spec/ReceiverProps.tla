--------------------------- MODULE ReceiverProps ---------------------------
(***************************************************************************)
(* Property monitors for the receiver side of ypo/flute:                   *)
(*   C01 clean channel delivery        C09 object-writer protocol          *)
(*   C02 loss recovery                 C16 carousel late join              *)
(*   C03 no silent corruption          C17 bounded memory                  *)
(*   C04 untrusted input               C19 FDT expiry on the sender clock  *)
(*                                                                         *)
(* Observable events only: the packets pushed (index into the recorded     *)
(* real session, mutation if any, receiver clock), the result of every     *)
(* call, the callbacks seen by the harness's scripted ObjectWriterBuilder / *)
(* ObjectWriter / listener, the public counters, and - for C17 only - the  *)
(* container sizes of the hook snapshot.  The block structure of every     *)
(* object and FDT instance is derived here by Partition.tla from (L, E, B) *)
(* and the decode rule per FEC scheme is the one the property states       *)
(* (Reed-Solomon: any k distinct symbols; others: all k source symbols).   *)
(*                                                                         *)
(* S is the session (objects, abstract packets, FDT instances) recorded    *)
(* from the real sender; m the monitor state; e the event.                 *)
(***************************************************************************)
EXTENDS Partition, FiniteSets, VCommon, SequencesExt

SeqToSet(s) == {s[i] : i \in 1..Len(s)}

-----------------------------------------------------------------------------
(* session access *)
SObj(S, o)  == S.objs[o]
NObj(S)     == Len(S.objs)
Pk(S, i)    == S.pkts[i]
NPk(S)      == Len(S.pkts)
FdtIdx(S, id) == {j \in 1..Len(S.fdts) : S.fdts[j].id = id}
Fdt(S, id)  == S.fdts[CHOOSE j \in FdtIdx(S, id) : TRUE]
FdtIds(S)   == {S.fdts[j].id : j \in 1..Len(S.fdts)}
Files(S, id) == SeqToSet(Fdt(S, id).files)
IsRS(sc)    == sc \in {5, 129}
SecOfTick(S, t) == IF S.cfg.tick_us >= 1000000 THEN t * (S.cfg.tick_us \div 1000000) ELSE t \div (1000000 \div S.cfg.tick_us)

\* delivered (SBN, ESI) pairs of object o / FDT instance id among the intact pushed packets (built once per question,
\* membership is then logarithmic: objects of thousands of blocks are judged in O(symbols))
PairsObj(S, P, o)  == {<<Pk(S, i).sbn, Pk(S, i).esi>> : i \in {j \in P : Pk(S, j).k = "obj" /\ Pk(S, j).o = o}}
PairsFdt(S, P, id) == {<<Pk(S, i).sbn, Pk(S, i).esi>> : i \in {j \in P : Pk(S, j).k = "fdt" /\ Pk(S, j).id = id}}
\* decode rule of the property: a Reed-Solomon block needs any k of its k + par symbols, every other scheme is judged
\* on its source symbols only
BlockOk(sc, k, par, b, G) == IF IsRS(sc) THEN Cardinality({x \in 0..(k + par - 1) : <<b, x>> \in G}) >= k
                             ELSE \A x \in 0..(k - 1) : <<b, x>> \in G

ObjRecoverable(S, P, o) ==
  LET ob == SObj(S, o) L == ob.L E == ob.E B == ob.B G == PairsObj(S, P, o) IN
  IF L = 0 THEN \E i \in P : Pk(S, i).k = "obj" /\ Pk(S, i).o = o
  ELSE \A b \in 0..(N(L, E, B) - 1) : BlockOk(ob.scheme, BlockSyms(L, E, B, b), ob.par, b, G)
FdtRecoverable(S, P, id) ==
  LET f == Fdt(S, id) L == f.L E == S.cfg.E B == S.cfg.B G == PairsFdt(S, P, id) IN
  \A b \in 0..(N(L, E, B) - 1) : BlockOk(S.cfg.scheme, BlockSyms(L, E, B, b), S.cfg.par, b, G)
Recoverable(S, P, o) == ObjRecoverable(S, P, o) /\ \E id \in FdtIds(S) : o \in Files(S, id) /\ FdtRecoverable(S, P, id)

-----------------------------------------------------------------------------
NewMon(e) ==
  [ beh |-> e.beh, sid |-> e.sid, rcfg |-> e.rcfg, w |-> e.w, fam |-> e.fam, heap0 |-> e.heap0,
    W |-> <<>>,                 \* writer id -> [o, st, len, ans, end, exact]
    pushed |-> {}, ordered |-> TRUE, lasti |-> 0, npush |-> 0, mutated |-> FALSE, explicitOps |-> FALSE,
    fdtrx |-> {}, fdtoff |-> <<>>, attach |-> <<>>, tFdtDone |-> -1, tFirstObj |-> -1, ne |-> 0,
    slept |-> FALSE, dead |-> FALSE,
    lastAct |-> <<>>, lastFdt |-> <<>> ]     \* monotonic ms of the last packet pushed for each object / FDT instance id

DefaultWriter(m) == m.w.ans = <<>> /\ m.w.open_fail = <<>> /\ m.w.write_fail = <<>>
WritersOf(m, o) == {w \in DOMAIN m.W : m.W[w].o = o}
NExact(m, o)    == Cardinality({w \in WritersOf(m, o) : m.W[w].end = "complete" /\ m.W[w].exact})
NComplete(m, o) == Cardinality({w \in WritersOf(m, o) : m.W[w].end = "complete"})
NFailed(m, o)   == Cardinality({w \in WritersOf(m, o) : m.W[w].end \in {"error", "interrupted"}})
Off(m, id)      == IF id \in DOMAIN m.fdtoff THEN m.fdtoff[id] ELSE 0

-----------------------------------------------------------------------------
(* callbacks *)
ExpGroups(S, o) == S.cfg.groups \o SObj(S, o).groups

\* the instance-dependent metadata (cache directive) must be the one of some instance listing the object
CacheOk(S, o, c) ==
  \E j \in 1..Len(S.fdts) : \E x \in 1..Len(S.fdts[j].entries) :
     LET en == S.fdts[j].entries[x] IN
     /\ en.o = o
     /\ IF en.cache[1] = "none" THEN c[1] = "hint" /\ c[2] = S.fdts[j].exp
        ELSE c[1] = en.cache[1] /\ c[2] = en.cache[2]

\* objects of another session sharing endpoint and TSI (adversarial traffic) are reported with an offset: foreign
Own(S, o) == IF o >= 1 /\ o <= NObj(S) THEN o ELSE 0
CbChecks(S, m, e, cb) ==
  IF cb.k = "new" THEN
    LET o == Own(S, cb.o) IN
    << <<"C01", "writer-created-for-unknown-object", m.mutated \/ o > 0, cb.toix>>,
       <<"C18", "writer-callback-carries-wrong-endpoint-or-tsi", cb.ep = e.ep /\ cb.tsi = S.cfg.tsi, <<cb.ep, cb.tsi>> >>,
       <<"C01", "metadata-differs-from-what-the-sender-was-given",
           IF o = 0 \/ m.mutated THEN TRUE ELSE
           LET ob == SObj(S, o) mt == cb.meta IN
           /\ mt.loc = ob.loc /\ mt.clen = ob.clen /\ mt.tlen = ob.L /\ mt.type = ob.type
           /\ mt.md5 = ob.md5 /\ mt.etag = ob.etag /\ mt.cenc = ob.cenc
           /\ mt.groups = ExpGroups(S, o)
           /\ mt.E = ob.E /\ mt.scheme = ob.scheme
           /\ (ob.scheme \in {0, 5, 129} => mt.B = ob.B)
           /\ CacheOk(S, o, mt.cache), <<o, cb.meta>> >>,
       <<"C19", "delivery-started-through-expired-fdt",
           IF o = 0 \/ m.mutated \/ ~m.rcfg.expiry THEN TRUE ELSE
           \E id \in m.fdtrx \cap FdtIds(S) : o \in Files(S, id) /\ cb.ts - Off(m, id) <= Fdt(S, id).exp + 2,
           <<o, cb.ts, m.fdtrx, m.fdtoff>> >> >>
  ELSE IF cb.k \in {"open", "write", "complete", "error", "interrupted"} THEN
    IF cb.w \notin DOMAIN m.W THEN << <<"C09", "callback-on-unknown-writer", FALSE, cb>> >> ELSE
    LET w == m.W[cb.w] IN
    IF cb.k = "open" THEN
      << <<"C09", "open-not-first-or-not-once", w.st = "new", <<cb.w, w.st>> >>,
         <<"C09", "writer-used-although-builder-refused", w.ans = "store", <<cb.w, w.ans>> >> >>
    ELSE IF cb.k = "write" THEN
      << <<"C09", "write-without-successful-open-or-after-terminal", w.st = "opened", <<cb.w, w.st>> >>,
         <<"C09", "writes-are-not-a-prefix-of-the-object", m.mutated \/ cb.got = cb.exp, <<cb.w, cb.tot>> >> >>
    ELSE IF cb.k = "complete" THEN
      << <<"C09", "complete-without-successful-open-or-after-terminal", w.st = "opened", <<cb.w, w.st>> >>,
         <<"C03", "complete-but-bytes-differ-from-the-sender-object",
             IF w.o = 0 THEN TRUE
             ELSE IF m.mutated /\ ~(SObj(S, w.o).md5 # "" /\ m.w.md5) THEN TRUE
             ELSE cb.tot = SObj(S, w.o).clen /\ cb.dg = SObj(S, w.o).digest, <<cb.w, w.o, cb.tot>> >>,
         <<"C09", "complete-but-not-exactly-the-announced-content-written",
             IF w.o = 0 \/ m.mutated THEN TRUE ELSE cb.tot = SObj(S, w.o).clen /\ w.ok, <<cb.w, w.o, cb.tot>> >> >>
    ELSE
      << <<"C09", "terminal-call-before-open-or-second-terminal", w.st \in {"opened", "openfailed"}, <<cb.w, cb.k, w.st>> >> >>
  ELSE <<>>

CbStep(S, m, e, cb) ==
  IF cb.k = "new" THEN
    [m EXCEPT !.W = [x \in DOMAIN @ \cup {cb.w} |->
                       IF x = cb.w THEN [o |-> Own(S, cb.o), st |-> "new", len |-> 0, ans |-> cb.ans, end |-> "", exact |-> FALSE, ok |-> TRUE]
                       ELSE @[x]],
              !.attach = @]
  ELSE IF cb.k = "fdtrx" THEN
    IF Has(e, "i") /\ e.i >= 1 /\ e.i <= NPk(S) /\ Pk(S, e.i).k = "fdt" THEN [m EXCEPT !.fdtrx = @ \cup {Pk(S, e.i).id}] ELSE m
  ELSE IF cb.k \in {"open", "write", "complete", "error", "interrupted"} /\ cb.w \in DOMAIN m.W THEN
    LET w == m.W[cb.w] IN
    IF cb.k = "open" THEN [m EXCEPT !.W[cb.w].st = IF w.st = "new" THEN (IF cb.res = "ok" THEN "opened" ELSE "openfailed") ELSE w.st]
    \* a write that the writer refused has not been written
    ELSE IF cb.k = "write" THEN [m EXCEPT !.W[cb.w].len = cb.tot, !.W[cb.w].ok = w.ok /\ cb.got = cb.exp /\ cb.res = "ok"]
    ELSE IF cb.k = "complete" THEN
       [m EXCEPT !.W[cb.w].st = "done", !.W[cb.w].end = IF w.end = "" THEN "complete" ELSE "both",
                 !.W[cb.w].exact = (w.o > 0 /\ cb.tot = SObj(S, w.o).clen /\ cb.dg = SObj(S, w.o).digest)]
    ELSE [m EXCEPT !.W[cb.w].st = "done", !.W[cb.w].end = IF w.end = "" THEN cb.k ELSE "both"]
  ELSE m

RECURSIVE CbStates(_, _, _, _)
CbStates(S, m, e, cbs) == IF cbs = <<>> THEN <<m>> ELSE <<m>> \o CbStates(S, CbStep(S, m, e, Head(cbs)), e, Tail(cbs))
AfterCbs(S, m, e) == LET s == CbStates(S, m, e, e.cb) IN s[Len(s)]
AllCbChecks(S, m, e) == LET s == CbStates(S, m, e, e.cb) IN FlattenSeq([i \in 1..Len(e.cb) |-> CbChecks(S, s[i], e, e.cb[i])])

-----------------------------------------------------------------------------
(* memory (C17): snapshot of the real containers after every call *)
MaxPkt(S) == S.maxpkt     \* size of the largest datagram of the session (computed once when the session is recorded)
MemChecks(S, m, st) ==
  IF m.rcfg.max_cache < 0 THEN
     << <<"C17", "failed-object-list-longer-than-configured", \A i \in 1..Len(st.sess) : st.sess[i].nerr <= m.rcfg.max_err, st.ne>> >>
  ELSE
  << <<"C17", "cached-packets-exceed-the-object-cache-size",
        \A i \in 1..Len(st.sess) : \A j \in 1..Len(st.sess[i].objs) :
            st.sess[i].objs[j].cb <= m.rcfg.max_cache + MaxPkt(S), <<m.rcfg.max_cache, st.sess>> >>,
     <<"C17", "decoded-blocks-exceed-the-cache-size-by-more-than-two-blocks",
        \A i \in 1..Len(st.sess) : \A j \in 1..Len(st.sess[i].objs) :
            LET x == st.sess[i].objs[j] IN
            Own(S, x.o) = 0 \/ x.ab <= m.rcfg.max_cache + 2 * (SObj(S, x.o).B * SObj(S, x.o).E), <<m.rcfg.max_cache>> >>,
     <<"C17", "failed-object-list-longer-than-configured", \A i \in 1..Len(st.sess) : st.sess[i].nerr <= m.rcfg.max_err, st.ne>> >>

-----------------------------------------------------------------------------
(* events *)
\* what the receiver learns from the packet itself before it can call back: the packet may be altered, and
\* the sender-current-time offset of an FDT packet is taken when the packet is parsed
OwnPush(m, e) == ~Has(e, "sid") \/ e.sid = m.sid
PrePush(S, m, e) ==
  LET intact == ~Has(e, "mut") /\ e.i >= 1 /\ OwnPush(m, e)
      p == IF e.i >= 1 /\ e.i <= NPk(S) THEN Pk(S, e.i) ELSE [k |-> "raw"]
  IN  [m EXCEPT !.mutated = @ \/ ~intact,
                !.fdtoff = IF intact /\ p.k = "fdt" /\ p.sct
                           THEN [x \in DOMAIN @ \cup {p.id} |-> IF x = p.id THEN e.ts - SecOfTick(S, p.t) ELSE @[x]]
                           ELSE @]

PushChecks(S, m, e) ==
  << <<"C04", "receiver-call-did-not-return-ok-or-err", e.res \in {"ok", "err"}, <<e.i, e.res, IF Has(e, "m") THEN e.m ELSE "">> >> >>
  \o AllCbChecks(S, PrePush(S, m, e), e)
  \o (IF Has(e, "st") THEN MemChecks(S, m, e.st) ELSE <<>>)
  \o << <<"C04", "intact-packet-of-a-valid-session-rejected",
           Has(e, "mut") \/ e.i = 0 \/ e.res # "err" \/ m.mutated \/ ~OwnPush(m, e), <<e.i, e.res>> >> >>

PushStep(S, m, e) ==
  LET m1 == AfterCbs(S, PrePush(S, m, e), e)
      intact == ~Has(e, "mut") /\ e.i >= 1 /\ OwnPush(m, e)
      p == IF e.i >= 1 /\ e.i <= NPk(S) /\ OwnPush(m, e) THEN Pk(S, e.i) ELSE [k |-> "raw"]
  IN  [m1 EXCEPT !.pushed = IF intact THEN @ \cup {e.i} ELSE @,
                 !.ordered = @ /\ (~OwnPush(m, e) \/ e.i >= m.lasti),
                 !.lasti = IF OwnPush(m, e) THEN e.i ELSE @, !.npush = @ + 1,
                 !.dead = e.res = "panic",
                 !.lastAct = IF OwnPush(m, e) /\ p.k = "obj" /\ Has(e, "ms")
                             THEN [x \in DOMAIN @ \cup {p.o} |-> IF x = p.o THEN e.ms ELSE @[x]] ELSE @,
                 !.lastFdt = IF OwnPush(m, e) /\ p.k = "fdt" /\ Has(e, "ms")
                             THEN [x \in DOMAIN @ \cup {p.id} |-> IF x = p.id THEN e.ms ELSE @[x]] ELSE @,
                 !.tFdtDone = IF @ = -1 /\ (\E j \in 1..Len(e.cb) : e.cb[j].k = "fdtrx") THEN e.ts ELSE @,
                 !.tFirstObj = IF @ = -1 /\ intact /\ p.k = "obj" THEN e.ts ELSE @,
                 !.ne = IF Has(e, "st") THEN e.st.ne ELSE @]

DropChecks(S, m, e) ==
  << <<"C04", "receiver-drop-panicked", e.res = "ok", e.res>> >>
  \o AllCbChecks(S, m, [e EXCEPT !.ev = "drop"] @@ [ep |-> 10, i |-> 0])
  \o LET m1 == AfterCbs(S, m, e @@ [ep |-> 10, i |-> 0]) IN
     << <<"C09", "opened-writer-without-terminal-call-at-drop",
           \A w \in DOMAIN m1.W : m1.W[w].st # "opened", {w \in DOMAIN m1.W : m1.W[w].st = "opened"}>> >>

\* expected number of complete copies on a clean channel
ExpCopies(S, m, o) == IF m.rcfg.once THEN 1 ELSE S.xfers[o]
Accepted(S) == SeqToSet(S.accepted)
CleanRun(S, m) == /\ m.fam = "clean" /\ ~m.mutated /\ m.ordered /\ m.pushed = 1..NPk(S) /\ m.npush = NPk(S)
                  /\ DefaultWriter(m) /\ ~S.sender_dead
LossyRun(S, m) == ~m.mutated /\ m.ordered /\ DefaultWriter(m) /\ ~S.sender_dead /\ ~m.explicitOps

EndChecks(S, m, e) ==
  IF m.dead THEN <<>> ELSE
  << <<"C01", "clean-channel-object-not-delivered-exactly",
        IF CleanRun(S, m)
        THEN \A o \in Accepted(S) : NExact(m, o) = ExpCopies(S, m, o) /\ NComplete(m, o) = NExact(m, o) /\ NFailed(m, o) = 0
        ELSE TRUE,
        [o \in Accepted(S) |-> <<NExact(m, o), NComplete(m, o), NFailed(m, o)>>]>>,
     <<"C01", "clean-channel-writer-for-something-not-sent",
        IF CleanRun(S, m) THEN \A w \in DOMAIN m.W : m.W[w].o \in Accepted(S) ELSE TRUE, DOMAIN m.W>>,
     <<"C02", "recoverable-object-not-delivered",
        IF LossyRun(S, m) /\ m.fam \in {"subsets", "dups", "clean", "join"}
        THEN \A o \in Accepted(S) : Recoverable(S, m.pushed, o) => NExact(m, o) >= 1
        ELSE TRUE,
        {o \in Accepted(S) : Recoverable(S, m.pushed, o) /\ NExact(m, o) = 0}>>,
     <<"C16", "late-joiner-did-not-get-a-carouselled-object",
        IF m.fam = "join" /\ LossyRun(S, m)
        THEN \A o \in Accepted(S) : SObj(S, o).car[1] # "none" => NExact(m, o) >= 1
        ELSE TRUE, <<m.lasti>> >>,
     <<"C04", "valid-session-after-adversarial-traffic-not-delivered",
        IF m.fam = "c04" /\ m.ordered /\ m.pushed = 1..NPk(S) /\ DefaultWriter(m) /\ ~S.sender_dead
        THEN \A o \in Accepted(S) : NExact(m, o) = 1 /\ NFailed(m, o) = 0
        ELSE TRUE, [o \in Accepted(S) |-> <<NExact(m, o), NFailed(m, o)>>]>>,
     <<"C03", "object-reported-both-complete-and-failed",
        \A w \in DOMAIN m.W : m.W[w].end # "both", {w \in DOMAIN m.W : m.W[w].end = "both"}>>,
     <<"C19", "outcome-differs-from-expiry-on-the-sender-clock",
        IF m.fam # "expiry" \/ m.dead \/ m.tFdtDone = -1 \/ m.tFirstObj = -1 THEN TRUE ELSE
        \A o \in Accepted(S) :
           LET id == S.fdts[1].id
               \* estimate of the sender clock when the object could first be attached: when the later of
               \* (FDT complete, first object packet) happened
               est == Max2(m.tFdtDone, m.tFirstObj) - Off(m, id)
           IN  IF ~m.rcfg.expiry \/ est <= Fdt(S, id).exp - 3 THEN NExact(m, o) = 1
               ELSE IF est >= Fdt(S, id).exp + 3 THEN NComplete(m, o) = 0 /\ NFailed(m, o) = 0 /\ m.ne = 0
               ELSE TRUE,
        <<m.fdtoff, [o \in Accepted(S) |-> NExact(m, o)]>> >> >>

\* aggregated adversarial traffic (every case was pushed into the receiver; only offenders are itemised)
HeapLimit(m) == (IF m.rcfg.max_cache < 0 THEN 10485760 ELSE m.rcfg.max_cache) * 3 + 4194304
BatchChecks(S, m, e) ==
  << <<"C04", "receiver-call-did-not-return-ok-or-err", e.panic = 0, <<e.kind, e.arg, e.first_bad>> >>,
     <<"C04", "receiver-allocates-beyond-the-configured-limits", e.peak <= HeapLimit(m), <<e.kind, e.arg, e.peak>> >>,
     <<"C04", "receiver-call-too-slow", e.maxus <= 2000000,      \* wall clock on a possibly loaded machine; the watchdog cuts at 3 s
         <<e.kind, e.arg, e.maxus>> >> >>
  \o AllCbChecks(S, [m EXCEPT !.mutated = TRUE], e @@ [i |-> 0])
  \o (IF Has(e, "st") THEN MemChecks(S, m, e.st) ELSE <<>>)

\* after a cleanup with every timeout elapsed nothing is left (C17)
CleanupChecks(S, m, e) ==
  IF ~Has(e, "st") THEN <<>> ELSE
  \* an FDT instance that was received completely but is expired, or that failed, is of no further use: a cleanup releases it
  \* (state of the snapshot: 0 receiving, 1 complete, 2 error, 3 expired)
  << <<"C17", "expired-or-failed-fdt-instances-kept-by-cleanup",
        \A i \in 1..Len(e.st.sess) : \A j \in 1..Len(e.st.sess[i].fr) : e.st.sess[i].fr[j][2] \in {0, 1}, e.st.sess>> >>
  \o
  \* (a) every object / unfinished FDT instance for which no packet was pushed during more than the object time-out
  \*     (monotonic clock read after the push returned and before cleanup was called, 2 ms of margin) is released
  (IF m.rcfg.obj_to < 0 \/ ~Has(e, "ms") \/ m.mutated THEN <<>> ELSE
   << <<"C17", "stalled-objects-not-released-by-cleanup",
         \A i \in 1..Len(e.st.sess) : \A j \in 1..Len(e.st.sess[i].objs) :
             LET o == Own(S, e.st.sess[i].objs[j].o) IN
             o = 0 \/ o \notin DOMAIN m.lastAct \/ e.ms - m.lastAct[o] <= m.rcfg.obj_to + 2,
         <<e.ms, m.lastAct, m.rcfg.obj_to>> >>,
      <<"C17", "unfinished-fdt-instances-not-released-by-cleanup",
         \A i \in 1..Len(e.st.sess) : \A j \in 1..Len(e.st.sess[i].fr) :
             LET id == e.st.sess[i].fr[j][1] IN
             e.st.sess[i].fr[j][2] # 0 \/ id \notin DOMAIN m.lastFdt \/ e.ms - m.lastFdt[id] <= m.rcfg.obj_to + 2,
         <<e.ms, m.lastFdt>> >> >>)
  \o
  \* (b) with every time-out at zero and a sleep before the cleanup nothing at all is left
  (IF ~(m.slept /\ m.rcfg.obj_to = 0) THEN <<>> ELSE
   << <<"C17", "stalled-objects-not-released-by-cleanup", e.st.n = 0, e.st.n>>,
      <<"C17", "unfinished-fdt-instances-not-released-by-cleanup",
         \A i \in 1..Len(e.st.sess) : \A j \in 1..Len(e.st.sess[i].fr) : e.st.sess[i].fr[j][2] # 0, e.st.sess>>,
      <<"C17", "idle-sessions-not-released-by-cleanup", m.rcfg.sess_to # 0 \/ Len(e.st.sess) = 0, Len(e.st.sess)>>,
      <<"C17", "heap-not-released-by-cleanup", m.rcfg.sess_to # 0 \/ e.st.heap <= m.heap0 + 1048576, <<e.st.heap, m.heap0>> >> >>)

Checks(S, m, e) ==
  CASE e.ev = "push"    -> PushChecks(S, m, e)
    [] e.ev = "batch"   -> BatchChecks(S, m, e)
    [] e.ev = "cleanup" -> << <<"C04", "receiver-call-did-not-return-ok-or-err", e.res = "ok", <<"cleanup", e.res>> >> >>
                           \o AllCbChecks(S, m, e @@ [ep |-> 10, i |-> 0])
                           \o (IF Has(e, "st") THEN MemChecks(S, m, e.st) ELSE <<>>)
                           \o CleanupChecks(S, m, e)
    [] e.ev = "drop"    -> DropChecks(S, m, e)
    [] e.ev = "end"     -> EndChecks(S, m, e)
    [] e.ev = "hang"    -> << <<"C04", "receiver-call-did-not-return-in-bounded-time", FALSE, e.op>> >>
    [] e.ev = "harness_panic" -> << <<"C04", "receiver-call-did-not-return-ok-or-err", FALSE, e.m>> >>
    [] OTHER -> <<>>

Step(S, m, e) ==
  CASE e.ev = "push"    -> [PushStep(S, m, e) EXCEPT !.slept = FALSE]
    [] e.ev = "batch"   -> [AfterCbs(S, [m EXCEPT !.mutated = TRUE], e @@ [i |-> 0]) EXCEPT !.dead = e.panic > 0, !.slept = FALSE]
    [] e.ev = "sleep"   -> [m EXCEPT !.slept = e.ms >= 3]
    [] e.ev = "cleanup" -> [AfterCbs(S, m, e @@ [ep |-> 10, i |-> 0]) EXCEPT !.explicitOps = TRUE, !.dead = e.res # "ok"]
    [] e.ev = "drop"    -> [AfterCbs(S, m, e @@ [ep |-> 10, i |-> 0]) EXCEPT !.explicitOps = @ \/ ~Has(e, "final")]
    [] e.ev = "listen"  -> [m EXCEPT !.explicitOps = TRUE]
    [] OTHER -> m

Viol(S, m, e) == SelectSeq(Checks(S, m, e), LAMBDA c : ~c[3])
=============================================================================
