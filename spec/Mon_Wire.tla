------------------------------- MODULE Mon_Wire -------------------------------
(* C06: validation of recorded (bytes, values) pairs against Wire.tla.          *)
(*  "enc" records: flute's packet builder was given the values g and produced  *)
(*         bytes: Wire.tla must decode exactly g from them (layout as the RFCs *)
(*         prescribe), and flute's own parser and the harness decoder rfcdec   *)
(*         must agree with Wire.tla on the bytes.                              *)
(*  "dec" records: bytes built by Wire.tla (or emitted by a real Sender run):  *)
(*         flute's parser and rfcdec must return what Wire.tla decodes.        *)
EXTENDS Wire, VCommon, IOUtils
Rec == ndJsonDeserialize(IOEnv.TRACE)
VARIABLE l
Init == l = 1

Bit(x) == IF x THEN 1 ELSE 0
SctOf(d) == LET x == FirstExt(d, 2) IN
            IF x.het = -1 \/ Len(x.body) < 6 \/ x.body[1] \div 128 = 0 THEN [present |-> FALSE]
            ELSE [present |-> TRUE, hi |-> SubSeq(x.body, 3, 6),
                  lo |-> IF (x.body[1] \div 64) % 2 = 1 /\ Len(x.body) >= 10 THEN SubSeq(x.body, 7, 10) ELSE Zeros(4)]
FdtOf(d) == LET x == FirstExt(d, 192) IN IF x.het = -1 THEN <<>> ELSE <<x.body[1] \div 16, (x.body[1] % 16) * 65536 + x.body[2] * 256 + x.body[3]>>
CencOf(d) == LET x == FirstExt(d, 193) IN IF x.het = -1 THEN -1 ELSE x.body[1]
IsFdtPkt(d) == Strip(d.toi) = <<>>

\* what flute's parser returned (x) against Wire.tla's decoding d of the same bytes
FluteAgrees(d, x, m) ==
  LET fti == DecFti(d) sct == SctOf(d) pid == DecPid(d.cp, d.pid, m) IN
  << <<"flute-rejects-a-well-formed-packet", x.ok, IF Has(x, "err") THEN x.err ELSE IF Has(x, "panic") THEN x.panic ELSE "">> >> \o
  (IF ~x.ok THEN <<>> ELSE
  << <<"flute-cci", SameValue(x.cci, d.cci), <<x.cci, d.cci>> >>,
     <<"flute-tsi", SameValue(x.tsi, d.tsi), <<x.tsi, d.tsi>> >>,
     <<"flute-toi", SameValue(x.toi, d.toi), <<x.toi, d.toi>> >>,
     <<"flute-codepoint-flags-length", x.cp = d.cp /\ Bit(x.a) = d.a /\ Bit(x.b) = d.b /\ x.poff = Len(d.cci) + Len(d.tsi) + Len(d.toi) + 4 + Len(EncExts(d.exts)) + Len(d.pid), <<x.cp, x.a, x.b, x.poff>> >>,
     <<"flute-ext-fdt", IsFdtPkt(d) => (IF FdtOf(d) = <<>> THEN x.fdt = <<>> ELSE x.fdt = FdtOf(d)), <<x.fdt, FdtOf(d)>> >>,
     <<"flute-ext-cenc", x.cenc = (IF CencOf(d) \in 0..3 THEN CencOf(d) ELSE -1), <<x.cenc, CencOf(d)>> >>,
     <<"flute-ext-fti",
         IF ~fti.present THEN ~x.fti.present
         ELSE IF Has(fti, "bad") THEN TRUE
         ELSE /\ x.fti.present /\ SameValue(x.fti.L, fti.L) /\ x.fti.E = fti.E /\ x.fti.scheme = d.cp
              /\ (d.cp \in {0, 5, 129, 2} => SameValue(x.fti.B, fti.B))
              /\ (d.cp \in {5, 129, 2} /\ fti.maxn >= ToNat(Strip(fti.B)) => x.fti.par = fti.maxn - ToNat(Strip(fti.B)))
              /\ (d.cp = 129 => x.fti.inst = fti.inst)
              /\ (d.cp = 2 => x.fti.m = (IF fti.m = 0 THEN 8 ELSE fti.m) /\ x.fti.g = (IF fti.g = 0 THEN 1 ELSE fti.g))
              /\ (d.cp \in {1, 6} => x.fti.Z = fti.Z /\ x.fti.N = fti.N /\ x.fti.Al = fti.Al),
         <<x.fti, fti>> >>,
     <<"flute-sender-current-time",
         IF ~sct.present THEN ~x.sct.present
         ELSE x.sct.present /\ NtpSeconds(x.sct.secs) = sct.hi /\ x.sct.us = FracToMicros(sct.lo), <<x.sct, sct>> >>,
     <<"flute-payload-id",
         IF ~x.pid.ok THEN FALSE
         ELSE /\ x.pid.esi = pid.esi /\ x.pid.sbl = pid.sbl
              /\ (IF d.cp = 129 THEN SameValue(x.pid.sbn, pid.sbn) ELSE ToNat(Strip(x.pid.sbn)) = pid.sbn), <<x.pid, pid>> >> >>)

\* the harness decoder rfcdec against Wire.tla
RfcAgrees(d, x, m) ==
  LET fti == DecFti(d) sct == SctOf(d) pid == DecPid(d.cp, d.pid, m) IN
  << <<"rfcdec-rejects-a-well-formed-packet", x.ok, IF Has(x, "err") THEN x.err ELSE "">> >> \o
  (IF ~x.ok THEN <<>> ELSE
  << <<"rfcdec-header", /\ x.c = d.c /\ x.s = d.s /\ x.o = d.o /\ x.h = d.h /\ Bit(x.a) = d.a /\ Bit(x.b) = d.b /\ x.cp = d.cp
                        /\ SameValue(x.cci, d.cci) /\ SameValue(x.tsi, d.tsi) /\ SameValue(x.toi, d.toi)
                        /\ x.poff = Len(d.cci) + Len(d.tsi) + Len(d.toi) + 4 + Len(EncExts(d.exts)) + Len(d.pid), x>>,
     <<"rfcdec-extensions", /\ (IF FdtOf(d) = <<>> THEN x.fdt = <<>> ELSE x.fdt = FdtOf(d)) /\ x.cenc = CencOf(d)
                            /\ (IF sct.present THEN x.sct.present /\ x.sct.hi = sct.hi /\ x.sct.lo = sct.lo ELSE ~x.sct.present), <<x.fdt, x.cenc, x.sct>> >>,
     <<"rfcdec-fti",
         IF ~fti.present THEN ~x.fti.present ELSE IF Has(fti, "bad") THEN TRUE ELSE
         /\ x.fti.present /\ SameValue(x.fti.L, fti.L) /\ x.fti.E = fti.E
         /\ (d.cp \in {0, 5, 129, 2} => SameValue(x.fti.B, fti.B))
         /\ (d.cp \in {5, 129, 2} => x.fti.maxn = fti.maxn) /\ (d.cp = 129 => x.fti.inst = fti.inst)
         /\ (d.cp = 2 => x.fti.m = fti.m /\ x.fti.g = fti.g) /\ (d.cp \in {1, 6} => x.fti.Z = fti.Z /\ x.fti.N = fti.N /\ x.fti.Al = fti.Al), <<x.fti, fti>> >>,
     <<"rfcdec-payload-id", /\ x.esi = pid.esi /\ x.sbl = pid.sbl
                            /\ (IF d.cp = 129 THEN SameValue(x.sbn, pid.sbn) ELSE ToNat(Strip(x.sbn)) = pid.sbn), <<x.sbn, x.esi, pid>> >> >>)

\* the bytes flute produced against the values it was given
EncChecks(r) ==
  LET g == r.g d == DecAlc(r.bytes) sc == g.oti.scheme isfdt == g.fdt # <<>> IN
  IF Has(r, "panic") THEN << <<"packet-builder-panics", FALSE, r.panic>> >> ELSE
  IF ~d.ok THEN << <<"built-packet-is-not-well-formed", FALSE, r.bytes>> >> ELSE
  LET fti == DecFti(d) sct == SctOf(d) m == IF Has(g.oti, "m") THEN g.oti.m ELSE 8
      sbnInt == ToNat(Strip(g.sbn)) IN
  << <<"cci-tsi-toi", SameValue(d.cci, g.cci) /\ SameValue(d.tsi, g.tsi) /\ SameValue(d.toi, g.toi), <<d.cci, d.tsi, d.toi>> >>,
     <<"flags-codepoint", d.b = Bit(g.b) /\ d.a = 0 /\ d.psi = 0 /\ d.cp = sc, <<d.a, d.b, d.cp>> >>,
     <<"ext-fdt", FdtOf(d) = (IF isfdt THEN <<g.fdt[1], g.fdt[2]>> ELSE <<>>), <<FdtOf(d), g.fdt>> >>,
     <<"ext-cenc", CencOf(d) = (IF (isfdt /\ g.cenc # 0) \/ g.icenc THEN g.cenc ELSE -1), <<CencOf(d), g.cenc, g.icenc>> >>,
     <<"ext-time-to-the-microsecond",
         IF Has(g.sct, "secs") THEN sct.present /\ sct.hi = NtpSeconds(g.sct.secs) /\ FracEncodes(sct.lo, g.sct.us) ELSE ~sct.present,
         <<sct, g.sct>> >>,
     <<"ext-fti",
         IF ~(isfdt \/ g.oti.fti) THEN ~fti.present ELSE
         /\ fti.present /\ ~Has(fti, "bad") /\ SameValue(fti.L, g.L) /\ fti.E = g.oti.E
         /\ (sc \in {0, 5, 129, 2} => ToNat(Strip(fti.B)) = g.oti.B)
         /\ (sc \in {5, 129, 2} => fti.maxn = g.oti.B + g.oti.par)
         /\ (sc = 129 => fti.inst = g.oti.inst) /\ (sc = 2 => fti.m = g.oti.m /\ fti.g = g.oti.g)
         /\ (sc \in {1, 6} => fti.Z = g.oti.Z /\ fti.N = g.oti.N /\ fti.Al = g.oti.Al), <<fti, g.oti, g.L>> >>,
     <<"fec-payload-id", d.pid = (IF sc = 129 THEN EncPid(sc, g.sbn, g.esi, g.sbl, m) ELSE EncPid(sc, sbnInt, g.esi, g.sbl, m)), <<d.pid, g.sbn, g.esi>> >>,
     <<"payload", d.payload = [i \in 1..g.paylen |-> 90], Len(d.payload)>> >>
  \o FluteAgrees(d, r.flute, m) \o RfcAgrees(d, r.rfc, m)
  \* round trip of the sender current time through flute's own parser, to the microsecond
  \o (IF Has(g.sct, "secs") /\ r.flute.ok
      THEN << <<"sender-current-time-does-not-round-trip", r.flute.sct.present /\ SameValue(r.flute.sct.secs, g.sct.secs) /\ r.flute.sct.us = g.sct.us, <<r.flute.sct, g.sct>> >> >>
      ELSE <<>>)

DecChecks(r) ==
  LET d == DecAlc(r.bytes) IN
  IF ~d.ok THEN << <<"emitted-packet-is-not-well-formed", Has(r, "spec_built"), r.bytes>> >>
  ELSE FluteAgrees(d, r.flute, r.m) \o RfcAgrees(d, r.rfc, r.m)

Next == /\ l <= Len(Rec)
        /\ LET r == Rec[l]
               cs == IF Has(r, "skip") THEN <<>> ELSE IF r.ev = "enc" THEN EncChecks(r) ELSE DecChecks(r)
               v == SelectSeq(cs, LAMBDA c : ~c[2]) IN
           \A i \in 1..Len(v) : Report("C06", v[i][1], 0, l, v[i][3])
        /\ l' = l + 1
Spec == Init /\ [][Next]_l
AllConsumed == IF TLCGet("stats").diameter = Len(Rec) + 1 THEN TRUE
               ELSE PrintT(<<"UNCONSUMED", TLCGet("stats").diameter, Len(Rec)>>) /\ FALSE
=============================================================================
