------------------------------- MODULE System -------------------------------
(***************************************************************************)
(* End-to-end composition of the two mechanism specifications:             *)
(*                                                                         *)
(*     Sender.tla  --(wire: the packets it emits, with their times)-->     *)
(*     channel (clean | late join at k | one packet lost | two adjacent    *)
(*              packets swapped | one packet duplicated)  -->              *)
(*     Receiver.tla  -->  callbacks judged by ReceiverProps.tla            *)
(*                                                                         *)
(* Phase "send": the sender mechanism executes a script (add / publish /   *)
(* drain / advance the clock) for one of the scenarios; every packet it    *)
(* returns is appended to `wire` in the abstract form the receiver reads   *)
(* (kind, object or instance id, SBN, ESI, close-object flag, in-band OTI, *)
(* sender current time).  The FDT content of every instance is taken from  *)
(* the sender state (what Fdt::publish listed).                            *)
(* Phase "recv": for every channel of the class above, the receiver        *)
(* mechanism consumes the schedule; each call is turned into the event the *)
(* harness would record and fed to the monitor.  Invariant: no conjunct of *)
(* C01 (clean channel), C02 (recoverable => delivered), C03, C09, C16      *)
(* (late joiner of a carousel) is violated - for the packet sequences the  *)
(* SENDER MECHANISM really produces (FDT before objects, repetition of the *)
(* FDT and of carousel objects, instances listing only objects in transfer *)
(* in the second publication mode, close-object flags, interleaving).      *)
(* Both mechanisms are bound to the code by Trace_Sender / Trace_Receiver. *)
(***************************************************************************)
EXTENDS ReceiverProps
CONSTANTS ScenSet, Variant
SX == INSTANCE Sender
RX == INSTANCE Receiver

FdtLen == 1500          \* an FDT instance is two packets of the session's 1024-byte symbols
\* ---- the catalogue: one record per object with the fields of both sides -----------------------
MkObj(o, L, E, B, sch, par, fti, count, car) ==
  [o |-> o, L |-> L, Lx |-> "x", E |-> E, B |-> B, par |-> par, scheme |-> sch, q |-> 0, count |-> count, car |-> car,
   start |-> -1, target |-> <<"none", 0>>, imm |-> FALSE, fti |-> fti, icenc |-> FALSE, cenc |-> 0, clen |-> L,
   loc |-> "l", type |-> "t", md5 |-> "", etag |-> "", groups |-> <<>>, cache |-> <<"none">>, digest |-> "d", own_oti |-> TRUE]
\* scenario: objects, configuration (publication mode, slots, interleave) and the script
Scen ==
  << \* 1: two objects (No-Code 2 blocks; RS with in-band OTI), sent once, full FDT
     [objs |-> << MkObj(1, 12, 4, 2, 0, 0, FALSE, 1, <<"none", 0>>), MkObj(2, 8, 4, 2, 5, 1, TRUE, 1, <<"none", 0>>) >>,
      mode |-> "full", slots |-> 1, il |-> 2,
      script |-> << <<"add", 1>>, <<"add", 2>>, <<"publish">>, <<"drain">> >>],
     \* 2: the same in the mode where an instance lists only the objects in transfer, two slots
     [objs |-> << MkObj(1, 12, 4, 2, 0, 0, FALSE, 1, <<"none", 0>>), MkObj(2, 8, 4, 2, 5, 1, TRUE, 1, <<"none", 0>>) >>,
      mode |-> "obt", slots |-> 2, il |-> 1,
      script |-> << <<"add", 1>>, <<"add", 2>>, <<"drain">> >>],
     \* 3: carousel: an RS object and an empty object repeated every second, three further cycles
     [objs |-> << MkObj(1, 8, 4, 2, 129, 1, FALSE, 1, <<"delay", 1>>), MkObj(2, 0, 4, 2, 0, 0, TRUE, 1, <<"delay", 1>>) >>,
      mode |-> "full", slots |-> 1, il |-> 1,
      script |-> << <<"add", 1>>, <<"add", 2>>, <<"publish">>, <<"drain">>, <<"adv", 2>>, <<"drain">>, <<"adv", 2>>, <<"drain">>,
                    <<"adv", 2>>, <<"drain">> >>],
     \* 4: two transfers of one object, a second object added and published later
     [objs |-> << MkObj(1, 4, 4, 2, 0, 0, TRUE, 2, <<"none", 0>>), MkObj(2, 12, 4, 2, 5, 1, FALSE, 1, <<"none", 0>>) >>,
      mode |-> "full", slots |-> 1, il |-> 2,
      script |-> << <<"add", 1>>, <<"publish">>, <<"drain">>, <<"add", 2>>, <<"publish">>, <<"drain">> >>],
     \* 5: carousel with in-band OTI (blocks are decoded before the FDT is known), two blocks
     [objs |-> << MkObj(1, 12, 4, 2, 5, 1, TRUE, 1, <<"delay", 1>>) >>,
      mode |-> "full", slots |-> 1, il |-> 1,
      script |-> << <<"add", 1>>, <<"publish">>, <<"drain">>, <<"adv", 2>>, <<"drain">>, <<"adv", 2>>, <<"drain">>,
                    <<"adv", 2>>, <<"drain">> >>],
     \* 6: an object removed in the middle of its transfer (its next packet carries the close-object flag), another one
     \*    sent normally afterwards: the partial object must end as interrupted, never complete
     \*    (immediate stop allowed: without it the sender finishes the first transfer of a removed object)
     [objs |-> << [MkObj(1, 16, 4, 2, 0, 0, TRUE, 1, <<"none", 0>>) EXCEPT !.imm = TRUE], MkObj(2, 8, 4, 2, 5, 1, FALSE, 1, <<"none", 0>>) >>,
      mode |-> "full", slots |-> 1, il |-> 1,
      script |-> << <<"add", 1>>, <<"publish">>, <<"readn", 4>>, <<"remove", 1>>, <<"add", 2>>, <<"publish">>, <<"drain">> >>],
     \* 7: FDT instances of 5 seconds renewed by the sender while a carousel object is repeated every 2 seconds for 12 seconds:
     \*    a receiver (expiry check on) always finds an unexpired instance, also when it joins late
     [objs |-> << MkObj(1, 8, 4, 2, 0, 0, TRUE, 1, <<"delay", 2>>) >>,
      mode |-> "full", slots |-> 1, il |-> 1, dur |-> 5,
      script |-> << <<"add", 1>>, <<"publish">>, <<"drain">>, <<"adv", 3>>, <<"drain">>, <<"adv", 3>>, <<"drain">>, <<"adv", 3>>, <<"drain">>,
                    <<"adv", 3>>, <<"drain">> >>] >>

\* Variant names a deliberately broken rule of the sender or of the receiver mechanism (vacuity guard)
SenderVariants == {"no-fdt-gate", "b-every-block", "lifo-queue", "no-start-check", "count-off-by-one", "desc-queues"}
Dur(sc) == IF "dur" \in DOMAIN sc THEN sc.dur ELSE 3600
SCfg(sc) == [mode |-> sc.mode, queues |-> << <<0, sc.slots>> >>, interleave |-> sc.il, E |-> 1024, B |-> 8, par |-> 0,
             fdt_start |-> 1, fdt_dur |-> Dur(sc), fdt_car |-> <<"delay", 2>>, tick_us |-> 1000000,
             variant |-> IF Variant \in SenderVariants THEN Variant ELSE "ok"]

VARIABLES sc, phase, s, t, pc, draining, wire, chan, pos, r, m, bad
vars == <<sc, phase, s, t, pc, draining, wire, chan, pos, r, m, bad>>
\* draining: 0 (no), -1 (until nothing is returned) or the number of reads left of a "readn" operation
Removed == {Scen[sc].script[i][2] : i \in {j \in 1..Len(Scen[sc].script) : Scen[sc].script[j][1] = "remove"}}
Sc == Scen[sc]
Objs == Sc.objs

\* ---- the wire: what the receiver side knows about an emitted packet --------------------------------
WirePkt(out, now, i) ==
  IF out.k = "fdt"
  THEN [i |-> i, t |-> now, k |-> "fdt", o |-> 0, id |-> out.id, sbn |-> out.sbn, esi |-> out.esi, A |-> FALSE, B |-> out.B,
        len |-> 1024, size |-> 1100, fti |-> TRUE, fl |-> FdtLen, sct |-> TRUE, scts |-> now, cencx |-> 0, sbl |-> -1]
  ELSE LET ob == Objs[out.o] IN
       [i |-> i, t |-> now, k |-> "obj", o |-> out.o, id |-> -1, sbn |-> out.sbn, esi |-> out.esi, A |-> FALSE, B |-> out.B,
        len |-> ob.E, size |-> ob.E + 40, fti |-> ob.fti, fl |-> IF ob.fti THEN ob.L ELSE -1, sct |-> FALSE, scts |-> 0, cencx |-> -1,
        sbl |-> IF ob.scheme = 129 THEN BlockSyms(ob.L, ob.E, ob.B, out.sbn) ELSE -1]

\* the session as the receiver side sees it, from the final sender state and the wire
FdtRec(id) == LET c == s.fcontent[id] fs == SetToSeq(c.files) IN
              [id |-> id, L |-> FdtLen, exp |-> c.t + Dur(Sc), files |-> fs, entries |-> [j \in 1..Len(fs) |-> [o |-> fs[j], cache |-> <<"none", 0>>]]]
EmittedIds == {wire[i].id : i \in {j \in 1..Len(wire) : wire[j].k = "fdt"}}
Sess ==
  [ sid |-> 0, skip |-> "", sender_dead |-> FALSE,
    cfg |-> [E |-> 1024, B |-> 8, scheme |-> 0, par |-> 0, tsi |-> 1, tick_us |-> 1000000, groups |-> <<>>, fdt_dur |-> Dur(Sc), fdt_cenc |-> 0],
    objs |-> Objs, pkts |-> wire,
    fdts |-> LET ids == SetToSeq(EmittedIds) IN [j \in 1..Len(ids) |-> FdtRec(ids[j])],
    xfers |-> [o \in 1..Len(Objs) |-> Cardinality({i \in 1..Len(wire) : wire[i].k = "obj" /\ wire[i].o = o /\ wire[i].sbn = 0 /\ wire[i].esi = 0})],
    accepted |-> SetToSeq(s.files \cup {o \in 1..Len(Objs) : \E i \in 1..Len(wire) : wire[i].k = "obj" /\ wire[i].o = o}),
    maxpkt |-> 1100, toinum |-> [o \in 1..Len(Objs) |-> o] ]

\* ---- channels -----------------------------------------------------------------------------------------
N0 == Len(wire)
FirstCycleEnd ==   \* late joins are taken inside the first emission of every object (scenario 3)
  LET I == {i \in 1..N0 : wire[i].t > 0} IN IF I = {} THEN N0 ELSE (CHOOSE i \in I : \A j \in I : i <= j) - 1
Channels == { <<"clean", 0>> } \cup { <<"lose", j>> : j \in 1..N0 } \cup { <<"swap", j>> : j \in 1..(N0 - 1) }
            \cup { <<"dup", j>> : j \in 1..N0 }
            \cup (IF sc \in {3, 5, 7} THEN { <<"join", k>> : k \in 2..FirstCycleEnd } ELSE {})
Sched(c) ==
  CASE c[1] = "clean" -> [i \in 1..N0 |-> i]
    [] c[1] = "lose"  -> [i \in 1..(N0 - 1) |-> IF i < c[2] THEN i ELSE i + 1]
    [] c[1] = "swap"  -> [i \in 1..N0 |-> IF i = c[2] THEN i + 1 ELSE IF i = c[2] + 1 THEN i - 1 ELSE i]
    [] c[1] = "dup"   -> [i \in 1..(N0 + 1) |-> IF i <= c[2] THEN i ELSE i - 1]
    [] c[1] = "join"  -> [i \in 1..(N0 - c[2] + 1) |-> i + c[2] - 1]
\* (a scenario with a removal is not a clean-channel delivery of everything that was added: C03 / C09 conjuncts only)
FamOf(c) == IF Removed # {} /\ c[1] \in {"clean", "lose", "dup"} THEN "perms" ELSE
            CASE c[1] = "clean" -> "clean" [] c[1] = "lose" -> "subsets" [] c[1] = "dup" -> "dups" [] c[1] = "swap" -> "perms" [] c[1] = "join" -> "join"

\* ---- events as the harness records them (same as MC_Receiver) -------------------------------------------------
RCfg == [once |-> TRUE, expiry |-> TRUE, max_cache |-> -1, max_err |-> 0, obj_to |-> -1, sess_to |-> -1, filtering |-> FALSE,
         variant |-> IF Variant \in SenderVariants THEN "ok" ELSE Variant]
WScript == [ans |-> <<>>, open_fail |-> <<>>, write_fail |-> <<>>, md5 |-> TRUE]
MetaOf(o, hint) == LET ob == Objs[o] IN
  [loc |-> ob.loc, clen |-> ob.clen, tlen |-> ob.L, type |-> ob.type, md5 |-> ob.md5, etag |-> ob.etag, cenc |-> ob.cenc, groups |-> ob.groups,
   E |-> ob.E, scheme |-> ob.scheme, B |-> ob.B, cache |-> <<"hint", hint>>]
MonCb(c, now) ==
  CASE c.k \in {"sopen", "sclosed"} -> [k |-> c.k, ep |-> 10, tsi |-> 1]
    [] c.k = "fdtrx" -> [k |-> "fdtrx", ep |-> 10, tsi |-> 1, ts |-> now]
    [] c.k = "new" -> [k |-> "new", w |-> c.w, o |-> c.o, ans |-> c.ans, ep |-> 10, tsi |-> 1, toix |-> "1", ts |-> now, meta |-> MetaOf(c.o, c.hint)]
    [] c.k = "open" -> [k |-> "open", w |-> c.w, res |-> c.res, ts |-> now]
    [] c.k = "write" -> [k |-> "write", w |-> c.w, len |-> c.len, tot |-> c.tot, res |-> c.res, got |-> "g", exp |-> "g"]
    [] c.k = "complete" -> [k |-> "complete", w |-> c.w, tot |-> c.tot, dg |-> "d"]
    [] c.k \in {"error", "interrupted"} -> [k |-> c.k, w |-> c.w]
    [] OTHER -> [k |-> "other"]
MonCbs(cbs, now) == [j \in 1..Len(cbs) |-> MonCb(cbs[j], now)]
Snap(rr) ==
  LET os == SetToSeq(DOMAIN rr.objects) IN
  [n |-> Len(os), ne |-> Cardinality(rr.errors), heap |-> 0,
   sess |-> << [nerr |-> Cardinality(rr.errors),
                objs |-> [j \in 1..Len(os) |-> [o |-> os[j], cb |-> rr.objects[os[j]].csize, ab |-> rr.objects[os[j]].abytes]],
                fr |-> <<>>] >>]
Feed(mm, e) == <<Viol(Sess, mm, e), Step(Sess, mm, e)>>

\* ---- composition ----------------------------------------------------------------------------------------------------
Init == /\ sc \in ScenSet
        /\ phase = "send" /\ s = SX!InitState(SCfg(Scen[sc]), Scen[sc].objs) /\ t = 0 /\ pc = 1 /\ draining = 0 /\ wire = <<>>
        /\ chan = <<"none", 0>> /\ pos = 0 /\ r = <<>> /\ m = <<>> /\ bad = <<>>

SendStep ==
  /\ phase = "send" /\ pc <= Len(Sc.script)
  /\ LET op == Sc.script[pc] IN
     IF draining # 0 THEN
        LET s1 == SX!Read(s, t, [id \in 0..(SX!IdMod - 1) |-> FdtLen])
            left == IF draining = -1 THEN -1 ELSE draining - 1 IN
        /\ s' = s1
        /\ IF s1.out.k = "none" THEN draining' = 0 /\ pc' = pc + 1 /\ wire' = wire
           ELSE /\ wire' = Append(wire, WirePkt(s1.out, t, Len(wire) + 1))
                /\ IF left = 0 THEN draining' = 0 /\ pc' = pc + 1 ELSE draining' = left /\ pc' = pc
        /\ t' = t
     ELSE
        /\ wire' = wire
        /\ CASE op[1] = "add"     -> s' = SX!AddObject(s, op[2]) /\ pc' = pc + 1 /\ draining' = 0 /\ t' = t
             [] op[1] = "publish" -> s' = SX!Publish(s, t) /\ pc' = pc + 1 /\ draining' = 0 /\ t' = t
             [] op[1] = "adv"     -> s' = s /\ pc' = pc + 1 /\ draining' = 0 /\ t' = t + op[2]
             [] op[1] = "drain"   -> s' = s /\ pc' = pc /\ draining' = -1 /\ t' = t
             [] op[1] = "readn"   -> s' = s /\ pc' = pc /\ draining' = op[2] /\ t' = t
             [] op[1] = "remove"  -> s' = SX!RemoveObject(s, op[2]) /\ pc' = pc + 1 /\ draining' = 0 /\ t' = t
  /\ UNCHANGED <<sc, phase, chan, pos, r, m, bad>>

\* the script is over: pick a channel
StartRecv ==
  /\ phase = "send" /\ pc > Len(Sc.script) /\ N0 >= 2
  /\ \E c \in Channels :
       /\ chan' = c /\ pos' = 1 /\ phase' = "recv"
       /\ r' = RX!InitRx(RCfg, WScript)
       /\ m' = NewMon([beh |-> 0, sid |-> 0, rcfg |-> RCfg, w |-> WScript, fam |-> FamOf(c), heap0 |-> 0])
  /\ UNCHANGED <<sc, s, t, pc, draining, wire, bad>>

RecvStep ==
  /\ phase = "recv" /\ pos <= Len(Sched(chan))
  /\ LET i == Sched(chan)[pos]
         now == wire[i].t
         r1 == RX!Push(Sess, r, i, now, TRUE, FALSE)
         e == [ev |-> "push", i |-> i, res |-> "ok", ep |-> 10, sid |-> 0, ts |-> now, ms |-> 0, cb |-> MonCbs(r1.cb, now), st |-> Snap(r1)]
         f == Feed(m, e) IN
     r' = r1 /\ m' = f[2] /\ bad' = f[1]
  /\ pos' = pos + 1 /\ UNCHANGED <<sc, phase, s, t, pc, draining, wire, chan>>
RecvDrop ==
  /\ phase = "recv" /\ pos > Len(Sched(chan))
  /\ LET r1 == RX!Drop(r)
         f == Feed(m, [ev |-> "drop", res |-> "ok", final |-> TRUE, ts |-> t, cb |-> MonCbs(r1.cb, t)]) IN
     r' = r1 /\ m' = f[2] /\ bad' = f[1]
  /\ phase' = "dropped" /\ UNCHANGED <<sc, s, t, pc, draining, wire, chan, pos>>
RecvEnd ==
  /\ phase = "dropped"
  /\ LET f == Feed(m, [ev |-> "end", beh |-> 0, dead |-> FALSE]) IN m' = f[2] /\ bad' = f[1]
  /\ phase' = "end" /\ UNCHANGED <<sc, s, t, pc, draining, wire, chan, pos, r>>

Next == SendStep \/ StartRecv \/ RecvStep \/ RecvDrop \/ RecvEnd
Spec == Init /\ [][Next]_vars

NoViolation == bad = <<>>
ShowBad == bad = <<>> \/ PrintT(<<"BAD", ToJson([conjuncts |-> [j \in 1..Len(bad) |-> bad[j][2]], scenario |-> sc, channel |-> chan, step |-> pos])>>)
\* vacuity: some end state has delivered every object (printed once per scenario and channel class by the check)
Delivered == phase = "end" => PrintT(<<"E2E", sc, chan[1], [o \in 1..Len(Objs) |-> NExact(m, o)]>>)
=============================================================================
