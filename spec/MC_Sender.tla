------------------------------ MODULE MC_Sender ------------------------------
(***************************************************************************)
(* Model checking of the sender: the mechanism specification Sender.tla,   *)
(* driven by every interleaving of add / publish / remove / trigger /      *)
(* advance-clock / read / drain calls within the bounds, composed with the *)
(* property monitors of SenderProps.tla.  Every call is turned into the    *)
(* event the harness would record (same fields), fed to the monitor, and   *)
(* the invariant is that no monitor conjunct is violated: the mechanism    *)
(* implies C08, C10 (content / ids / expiry), C11, C12, C13 and C14 for    *)
(* ALL histories within the bounds.  Payload bytes, strings and XML are    *)
(* below the abstraction and are supplied ideal.                           *)
(*                                                                         *)
(* Variant = "ok" is the specification of the code; the other variants     *)
(* deliberately break one rule of the mechanism and must make TLC report a *)
(* violation of the named monitor conjunct (vacuity guard of the monitors, *)
(* run by the checks as a self-test).                                      *)
(***************************************************************************)
EXTENDS Sender, SenderProps
CONSTANTS MaxOps, MaxClock, Variant, CfgSet

\* ---- the catalogue ----------------------------------------------------------
MkObj(o, L, E, B, par, sch, q, count, car, start, target, imm) ==
  [o |-> o, L |-> L, Lx |-> "x", E |-> E, B |-> B, par |-> par, scheme |-> sch, q |-> q, count |-> count, car |-> car,
   start |-> start, target |-> target, imm |-> imm, fti |-> TRUE, icenc |-> FALSE, cenc |-> 0, clen |-> L,
   loc |-> "l", type |-> "t", md5 |-> "m", etag |-> "", groups |-> <<>>, cache |-> <<"none", 0>>, digest |-> "d", own_oti |-> TRUE]
Objs ==
  << MkObj(1, 12, 4, 2, 1, 5, 0, 1, <<"none", 0>>, -1, <<"none", 0>>, FALSE),
     MkObj(2, 3, 4, 2, 0, 0, 1, 2, <<"delay", 1>>, -1, <<"none", 0>>, FALSE),
     MkObj(3, 0, 4, 2, 0, 0, 0, 1, <<"none", 0>>, 1, <<"dur", 2>>, TRUE) >>
NOb == Len(Objs)
FdtLen == 1500     \* two packets of the default symbol size
Cfgs ==
  << [mode |-> "full", queues |-> << <<0, 1>>, <<1, 1>> >>, interleave |-> 2],
     [mode |-> "obt",  queues |-> << <<0, 1>>, <<1, 1>> >>, interleave |-> 2],
     [mode |-> "full", queues |-> << <<0, 2>>, <<1, 1>> >>, interleave |-> 1],
     [mode |-> "obt",  queues |-> << <<0, 2>>, <<1, 1>> >>, interleave |-> 1] >>
FullCfg(c) == c @@ [E |-> 1024, B |-> 8, par |-> 0, scheme |-> 0, fdt_start |-> 1048575, fdt_dur |-> 3600, fdt_car |-> <<"delay", 2>>,
                    tick_us |-> 1000000, sct |-> FALSE, groups |-> <<>>, variant |-> Variant]

VARIABLES s, m, t, nops, draining, bad
vars == <<s, m, t, nops, draining, bad>>

\* ---- deliberately broken variants of the mechanism -----------------------------
\* (applied on top of Sender!Read's result or to the state before it)
Tweak(s0) == s0

\* ---- events as the harness records them ----------------------------------------
St(ss) == LET pr == Proj(ss) IN
          [live |-> SetToSeq(pr.live), n |-> pr.n, xf |-> [i \in 1..Len(SetToSeq(pr.live)) |-> <<SetToSeq(pr.live)[i], ss.info[SetToSeq(pr.live)[i]].total>>],
           fdtid |-> pr.fdtid, fdtq |-> pr.fdtq, fcur |-> pr.fcur, fq |-> pr.fq,
           slots |-> [i \in 1..Len(ss.cfg.queues) |-> <<ss.cfg.queues[i][1], pr.index[ss.cfg.queues[i][1]], pr.slots[ss.cfg.queues[i][1]]>>]]
PktEv(ss, o) ==
  LET ob == Objs[o] out == ss.out
      src == out.sbn < N(ob.L, ob.E, ob.B) /\ out.esi < BlockSyms(ob.L, ob.E, ob.B, out.sbn) IN
  [k |-> "obj", o |-> o, toi |-> o, toix |-> "1", sbn |-> out.sbn, esi |-> out.esi, B |-> out.B, A |-> FALSE, cp |-> ob.scheme, tsi |-> 1,
   fti |-> [L |-> ob.L, Lx |-> "x", E |-> ob.E, B |-> ob.B, maxn |-> ob.B + ob.par, Z |-> N(ob.L, ob.E, ob.B), N |-> 1, Al |-> 1, inst |-> 0],
   sct |-> [k |-> "none"], cenc |-> -1, got |-> "g", exp |-> "g", expp |-> "g",
   off |-> IF src THEN SymOffset(ob.L, ob.E, ob.B, out.sbn, out.esi) ELSE -1,
   len |-> IF ob.L = 0 THEN 0 ELSE IF src THEN SymBytes(ob.L, ob.E, ob.B, out.sbn, out.esi) ELSE ob.E, sbl |-> -1, nx |-> 0]
FdtPktEv(ss) ==
  [k |-> "fdt", o |-> 0, id |-> ss.out.id, ver |-> 2, sbn |-> ss.out.sbn, esi |-> ss.out.esi, B |-> ss.out.B, A |-> FALSE, cp |-> 0, tsi |-> 1,
   fti |-> [L |-> FdtLen, Lx |-> "5dc", E |-> 1024, B |-> 8, maxn |-> 8, Z |-> 0, N |-> 0, Al |-> 0, inst |-> 0],
   sct |-> [k |-> "none"], cenc |-> -1, got |-> "g", len |-> 1024, sbl |-> -1, nx |-> 0, toix |-> "0"]
ReadEv(ss, now) ==
  [ev |-> "read", t |-> now, res |-> "ok",
   sub |-> [i \in 1..Len(ss.sub) |-> <<ss.sub[i][1], ss.sub[i][2], IF ss.sub[i][1] = "stop" THEN "d" ELSE "-">>],
   p |-> IF ss.out.k = "none" THEN [k |-> "none"] ELSE IF ss.out.k = "fdt" THEN FdtPktEv(ss) ELSE PktEv(ss, ss.out.o),
   st |-> St(ss)]
\* the "fdt" event the harness emits after the last source packet of an instance (content parsed from the XML)
FdtDone(ss) == ss.out.k = "fdt" /\ ss.out.esi = T(FdtLen, 1024) - 1
FdtEv(ss, now) ==
  LET c == ss.fcontent[ss.out.id] fs == SetToSeq(c.files) IN
  [ev |-> "fdt", t |-> now, id |-> ss.out.id, ok |-> TRUE, exp |-> c.t + 3600, complete |-> c.complete, full |-> ss.cfg.mode = "full",
   groups |-> <<>>, oti |-> [enc |-> 0, inst |-> 0, B |-> 8, E |-> 1024, maxn |-> 8, Z |-> -1, N |-> -1, Al |-> -1],
   c |-> <<c.files, c.t, c.complete>>,
   files |-> [i \in 1..Len(fs) |->
               LET ob == Objs[fs[i]] IN
               [toi |-> "1", o |-> fs[i], loc |-> "l", clen |-> ob.clen, tlen |-> ob.L, clenx |-> "", tlenx |-> "", type |-> "t", cenc |-> 0, md5 |-> "m",
                oti |-> [enc |-> ob.scheme, inst |-> 0, B |-> ob.B, E |-> ob.E, maxn |-> ob.B + ob.par, Z |-> N(ob.L, ob.E, ob.B), N |-> 1, Al |-> 1],
                cache |-> <<"none", 0>>, etag |-> "", groups |-> <<>>]]]

\* ---- composition -----------------------------------------------------------------
Feed(mm, e) == <<Viol(mm, e), Step(mm, e)>>
Init == /\ \E c \in CfgSet : LET cfg == FullCfg(Cfgs[c]) IN
              /\ s = InitState(cfg, Objs)
              /\ m = NewMon([beh |-> 0, cfg |-> cfg, objs |-> Objs])
        /\ t = 0 /\ nops = 0 /\ draining = FALSE /\ bad = <<>>

DoRead(keep) ==
  LET s1 == Read(Tweak(s), t, [id \in 0..(IdMod - 1) |-> FdtLen])
      e  == ReadEv(s1, t)
      r  == Feed(m, e)
      r2 == IF FdtDone(s1) THEN Feed(r[2], FdtEv(s1, t)) ELSE <<<<>>, r[2]>>
  IN  /\ s' = s1 /\ m' = r2[2] /\ bad' = r[1] \o r2[1]
      /\ draining' = (keep /\ s1.out.k # "none")
      /\ UNCHANGED t

EnvRead  == ~draining /\ nops < MaxOps /\ nops' = nops + 1 /\ DoRead(FALSE)
EnvDrain == ~draining /\ nops < MaxOps /\ nops' = nops + 1 /\ DoRead(TRUE)
Continue == draining /\ DoRead(TRUE) /\ UNCHANGED nops
EnvAdd(o) ==
  /\ ~draining /\ nops < MaxOps /\ o \notin s.files /\ o \notin SeqToSet(m.added)
  /\ LET s1 == AddObject(s, o)
         e == [ev |-> "add", t |-> t, o |-> o, res |-> IF AddOk(s, o) THEN "ok" ELSE "err", toi |-> o, toix |-> "1", st |-> St(s1)]
         r == Feed(m, e) IN
     s' = s1 /\ m' = r[2] /\ bad' = r[1]
  /\ nops' = nops + 1 /\ UNCHANGED <<t, draining>>
EnvPublish ==
  /\ ~draining /\ nops < MaxOps
  /\ LET s1 == Publish(s, t)
         e == [ev |-> "publish", t |-> t, res |-> "ok", st |-> St(s1)]
         r == Feed(m, e) IN
     s' = s1 /\ m' = r[2] /\ bad' = r[1]
  /\ nops' = nops + 1 /\ UNCHANGED <<t, draining>>
EnvRemove(o) ==
  /\ ~draining /\ nops < MaxOps /\ o \in SeqToSet(m.added) /\ o \notin m.removed
  /\ LET s1 == RemoveObject(s, o)
         e == [ev |-> "remove", t |-> t, o |-> o, res |-> IF o \in s.files THEN "true" ELSE "false", st |-> St(s1)]
         r == Feed(m, e) IN
     s' = s1 /\ m' = r[2] /\ bad' = r[1]
  /\ nops' = nops + 1 /\ UNCHANGED <<t, draining>>
EnvAdvance(d) ==
  /\ ~draining /\ nops < MaxOps /\ t + d <= MaxClock
  /\ t' = t + d /\ nops' = nops + 1 /\ bad' = <<>> /\ UNCHANGED <<s, m, draining>>

Next == \/ EnvRead \/ EnvDrain \/ Continue \/ EnvPublish
        \/ \E o \in 1..NOb : EnvAdd(o) \/ EnvRemove(o)
        \/ \E d \in {1, 3} : EnvAdvance(d)
Spec == Init /\ [][Next]_vars

NoViolation == bad = <<>>
\* for the broken variants: prints the violated conjuncts of the first violating state
ShowBad == bad = <<>> \/ PrintT(<<"BAD", [i \in 1..Len(bad) |-> bad[i][2]]>>)
=============================================================================
